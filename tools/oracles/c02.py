"""C02 oracle (failing-input search; decides nothing by itself): refinement study on the implementation.

Families: Lamb–Oseen vortex carried by a free stream (2D Navier–Stokes), Gaussian blob in a uniform flow (2D and
3D passive transport, scalar; vector field in the thorough tier).  Free-stream direction (all sign quadrants /
octants), speed, viscosity, strength and a small position offset are drawn from the seed; the centre path stays
>= 5 sigma away from the boundary.  dt = PREFAC x compute_stable_timestep(), so dt ~ dx under refinement.
Checks per drawn case: (a) the least-squares order of the discrete L2 error over the family of resolutions is
>= 1; (b) the relative error (normalised by the initial peak) at each resolution is below a bound calibrated on
the clean tree with a first-order envelope E(n) <= B * n0 / n  (B = calibrated coarse bound x safety)."""
import warnings

import numpy as np

import impl

PREFAC = 0.25
TRAVEL = 0.25

# calibrated on the clean tree (PYTHONPATH=tools python tools/oracles/c02.py --n 12): max over 12 seeds x drawn cases x both
# precisions of the relative coarse-grid error (6.5e-3, 6.0e-3, 8.2e-3, 7.7e-3), times 2; observed fitted orders on the clean
# tree: >= 2.9 (2D quick), >= 1.85 (2D thorough), >= 1.88 (3D)
COARSE_BOUND = {"lamb_oseen_2d": 1.3e-2, "blob_2d": 1.4e-2, "blob_3d": 1.65e-2, "blob_3d_vector": 1.55e-2}
MIN_ORDER = 1.0
# grid aspect ratios (ny/nx[, nz/nx]); the box is never shorter than the unit box, so the 5-sigma margin to the boundary is kept
ASPECTS = {2: [(1.0,), (1.5,), (1.25,)], 3: [(1.25, 1.5), (1.0, 1.0), (1.5, 1.0)]}


def lamb_w(x, y, c, nu, gamma, t):
    return gamma / (4 * np.pi * nu * t) * np.exp(-((x - c[0]) ** 2 + (y - c[1]) ** 2) / (4 * nu * t))


def lamb_u(x, y, c, nu, gamma, t):
    r2 = (x - c[0]) ** 2 + (y - c[1]) ** 2
    fac = gamma / (2 * np.pi) * (-np.expm1(-r2 / (4 * nu * t))) / np.maximum(r2, 1e-300)
    return np.array([-fac * (y - c[1]), fac * (x - c[0])])


def blob(pos, c, nu, t, amp):
    d = len(c)
    r2 = sum((pos[i] - c[i]) ** 2 for i in range(d))
    return amp / (4 * np.pi * nu * t) ** (d / 2) * np.exp(-r2 / (4 * nu * t))


def draw(r, fam):
    d = 2 if fam.endswith("2d") else 3
    while True:
        u = r.normal(size=d)
        u /= np.linalg.norm(u)
        if np.min(np.abs(u)) > 0.15:       # a clearly signed component along every axis (both upwind branches over the draws)
            break
    u *= r.uniform(0.9, 1.3)
    nu = float(r.uniform(1.6e-3, 2.6e-3)) if d == 2 else float(r.uniform(5.5e-3, 7e-3))
    peak = float(r.uniform(0.3, 0.8))
    off = r.uniform(-0.02, 0.02, size=d)
    return {"family": fam, "u": u, "nu": nu, "peak": peak, "offset": off, "t0": 1.0, "aspect": (1.0,) * (d - 1)}


def own_coordinates(shape, dx):
    """cell centres (k + 1/2) dx written here, independently of the simulator's position_field; component order (x, y[, z])"""
    axes = [(np.arange(n) + 0.5) * dx for n in shape]
    mesh = np.meshgrid(*axes, indexing="ij")
    return [m.astype(float) for m in mesh[::-1]]


def run_case(case, n, real_t):
    import sopht.simulator as sps

    fam, u, nu, t0 = case["family"], case["u"], case["nu"], case["t0"]
    d = len(u)
    # grid (nz, ny, nx) = (round(a_z n), round(a_y n), n); x_range = 1, so dx = 1/n and the box is 1 x a_y (x a_z)
    asp = tuple(case.get("aspect", (1.0,) * (d - 1)))
    shape = tuple(int(round(a * n)) for a in asp[::-1]) + (n,)
    extent = np.array([1.0] + [shape[d - 1 - c] / n for c in range(1, d)])
    c0 = 0.5 * extent + case["offset"] - 0.5 * u * TRAVEL
    own = own_coordinates(shape, 1.0 / n)
    with warnings.catch_warnings():
        warnings.simplefilter("ignore")
        if fam == "lamb_oseen_2d":
            sim = sps.UnboundedNavierStokesFlowSimulator2D(grid_size=shape, x_range=1.0, kinematic_viscosity=nu, with_free_stream_flow=True,
                                                           real_t=real_t, time=t0)
            x, y = sim.position_field[0].astype(float), sim.position_field[1].astype(float)
            gamma = 4 * np.pi * nu * t0 * case["peak"]
            sim.vorticity_field[...] = lamb_w(x, y, c0, nu, gamma, t0)
            sim.velocity_field[...] = lamb_u(x, y, c0, nu, gamma, t0) + u.reshape(2, 1, 1)
            field = lambda: sim.vorticity_field  # noqa: E731
            exact = lambda c, t: lamb_w(own[0], own[1], c, nu, gamma, t)  # noqa: E731
            step = lambda dt: sim.time_step(dt=dt, free_stream_velocity=u.astype(real_t))  # noqa: E731
        else:
            vec = fam.endswith("vector")
            sim = sps.PassiveTransportFlowSimulator(kinematic_viscosity=nu, grid_dim=d, grid_size=shape, x_range=1.0, real_t=real_t,
                                                    time=t0, field_type="vector" if vec else "scalar")
            pos = [sim.position_field[i].astype(float) for i in range(d)]
            amp = case["peak"] * (4 * np.pi * nu * t0) ** (d / 2)
            comps = np.array([1.0, -0.5, 0.25])
            if vec:
                sim.primary_field[...] = comps.reshape(3, 1, 1, 1) * blob(pos, c0, nu, t0, amp)
            else:
                sim.primary_field[...] = blob(pos, c0, nu, t0, amp)
            for i in range(d):
                sim.velocity_field[i] = u[i]
            field = lambda: sim.primary_field  # noqa: E731
            # initial condition on the simulator's OWN coordinate field (as a user writes it), reference on independent coordinates
            exact = (lambda c, t: comps.reshape(3, 1, 1, 1) * blob(own, c, nu, t, amp)) if vec else (lambda c, t: blob(own, c, nu, t, amp))  # noqa: E731
            step = lambda dt: sim.time_step(dt=dt)  # noqa: E731
        t_end = t0 + TRAVEL
        while sim.time < t_end - 1e-12:
            dt = min(float(sim.compute_stable_timestep(dt_prefac=PREFAC)), t_end - sim.time)
            step(dt)
    c1 = c0 + u * (sim.time - t0)
    err = field().astype(float) - exact(c1, sim.time)
    if not np.all(np.isfinite(err)):
        return float("inf")
    return float(np.linalg.norm(err) * float(sim.dx) ** (d / 2)) / case["peak"]


def resolutions(fam, tier):
    if fam.endswith("2d"):
        return (32, 48, 64) if tier == "quick" else (32, 64, 128)
    return (16, 24, 32) if tier == "quick" else (16, 32, 48)


def study(case, tier, real_t):
    res = resolutions(case["family"], tier)
    errs = [run_case(case, n, real_t) for n in res]
    order = float(-np.polyfit(np.log(res), np.log(np.maximum(errs, 1e-300)), 1)[0]) if all(np.isfinite(errs)) else float("-inf")
    return res, errs, order


def run(seed=0, tier="quick", aimed=None):
    cases = 0
    samples = []
    fams = ["lamb_oseen_2d", "blob_2d", "blob_3d"] + (["blob_3d_vector"] if tier != "quick" else [])
    ndraw = {"lamb_oseen_2d": 3, "blob_2d": 3, "blob_3d": 1, "blob_3d_vector": 1} if tier == "quick" else \
            {"lamb_oseen_2d": 6, "blob_2d": 6, "blob_3d": 3, "blob_3d_vector": 2}
    quad = {}
    for fam in fams:
        for k in range(ndraw[fam]):
            r = impl.rng(seed, "c02", fam, k)
            case = draw(r, fam)
            # cover sign patterns deterministically: the k-th draw of a family gets the k-th sign pattern (rotated by the seed)
            d = len(case["u"])
            pat = (k + seed) % (2 ** d)
            signs = np.array([1.0 if (pat >> i) & 1 == 0 else -1.0 for i in range(d)])
            case["u"] = np.abs(case["u"]) * signs
            case["aspect"] = ASPECTS[d][(k + seed) % len(ASPECTS[d])]
            real_t = np.float64 if (k + seed) % 2 == 0 else np.float32
            res, errs, order = study(case, tier, real_t)
            cases += len(res)
            quad[str(tuple(int(s) for s in signs))] = quad.get(str(tuple(int(s) for s in signs)), 0) + 1
            info = {"family": fam, "aspect_ny_nz_over_nx": list(case["aspect"]), "free_stream": case["u"].tolist(), "nu": case["nu"], "peak": case["peak"], "offset": case["offset"].tolist(),
                    "dtype": real_t.__name__, "resolutions": list(res), "relative_L2_errors": errs, "fitted_order": order, "dt_prefac": PREFAC}
            bad = None
            if not order >= MIN_ORDER:
                bad = f"fitted convergence order {order:.3f} < {MIN_ORDER} (relative L2 errors {['%.3e' % e for e in errs]} at n = {list(res)})"
            else:
                B = COARSE_BOUND[fam]
                if B is not None:
                    for n, e in zip(res, errs):
                        if not e <= B * res[0] / n:
                            bad = f"relative L2 error {e:.3e} at n = {n} exceeds the calibrated bound {B * res[0] / n:.3e}"
                            break
            if bad:
                return {"ok": False, "cases": cases, "samples": samples, "failing_input": {"oracle": "c02_refinement_study", "what": bad, **info}}
            if len(samples) < 4:
                samples.append({"oracle": "c02_refinement_study", **info})
    return {"ok": True, "cases": cases, "failing_input": None, "samples": samples, "distribution": quad}


def replay(fi):
    return run(seed=fi.get("seed", 0), tier="thorough")


if __name__ == "__main__":
    import sys
    import time

    sys.path.insert(0, __import__("os").path.dirname(__import__("os").path.dirname(__import__("os").path.abspath(__file__))))
    import shim

    shim.install()
    tier = "thorough" if "--thorough" in sys.argv else "quick"
    worst = {}
    t0 = time.time()
    for seed in range(int(sys.argv[sys.argv.index("--n") + 1]) if "--n" in sys.argv else 4):
        for fam in ["lamb_oseen_2d", "blob_2d", "blob_3d", "blob_3d_vector"]:
            for k in range(3 if fam.endswith("2d") else 1):
                r = impl.rng(seed, "c02", fam, k)
                case = draw(r, fam)
                d = len(case["u"])
                pat = (k + seed) % (2 ** d)
                case["u"] = np.abs(case["u"]) * np.array([1.0 if (pat >> i) & 1 == 0 else -1.0 for i in range(d)])
                case["aspect"] = ASPECTS[d][(k + seed) % len(ASPECTS[d])]
                for real_t in (np.float64, np.float32):
                    res, errs, order = study(case, tier, real_t)
                    w = worst.setdefault(fam, {"coarse": 0.0, "order": 99.0, "env": 0.0})
                    w["coarse"] = max(w["coarse"], errs[0])
                    w["order"] = min(w["order"], order)
                    w["env"] = max(w["env"], max(e * n / res[0] for e, n in zip(errs, res)))
                    print(fam, real_t.__name__, np.round(case["u"], 2), "errs", ["%.3e" % e for e in errs], "order %.2f" % order, "t=%.0fs" % (time.time() - t0), flush=True)
    print(worst)
