"""C04 oracle on the real implementation: face-flux matching of the ENO3 kernels, and conservation of
the grid sum over a full time step for compactly supported fields."""
import numpy as np

import impl
from impl import spne


def _face_match(seed, n_cases):
    cases = 0
    samples = []
    for dim in (2, 3):
        gen = getattr(spne, f"gen_advection_flux_conservative_eno3_pyst_kernel_{dim}d")
        for t in range(n_cases):
            r = impl.rng(seed, "c04face", dim, t)
            shape = tuple(int(x) for x in r.integers(6, 11, size=dim))
            kern = gen(real_t=np.float64)
            # capture the single-axis kernels created by the generator
            ks = impl.shim.REGISTRY[-2 * dim:]
            f = r.normal(size=shape)
            v = r.normal(size=(dim, *shape))
            if t % 3 == 0:  # sign patterns with exact ties and zeros
                v = np.sign(v) * r.integers(0, 3, size=v.shape)
            inv_dx = float(r.uniform(0.5, 3.0))
            for ax in range(dim):  # ax = velocity component index (0 = x = last array axis)
                front = [k for k in ks if f"_{'xyz'[ax]}_front_" in k.name][0]
                back = [k for k in ks if f"_{'xyz'[ax]}_back_" in k.name][0]
                a1 = np.zeros(shape)
                a2 = np.zeros(shape)
                vn = "velocity_" + "xyz"[ax]
                front(advection_flux=a1, field=f, inv_dx=inv_dx, **{vn: v[ax]})
                back(advection_flux=a2, field=f, inv_dx=inv_dx, **{vn: v[ax]})
                axis = dim - 1 - ax
                # increment at cell c through front face + increment at c+e through back face
                sl_c = [slice(2, -3)] * dim
                sl_n = [slice(2, -3)] * dim
                sl_n[axis] = slice(3, -2)
                res = a1[tuple(sl_c)] + a2[tuple(sl_n)]
                cases += 1
                err = float(np.max(np.abs(res))) / max(1.0, float(np.max(np.abs(a1))))
                if err > 1e-12:
                    idx = np.unravel_index(np.argmax(np.abs(res)), res.shape)
                    return False, cases, {
                        "oracle": "face_match", "dim": dim, "axis": "xyz"[ax], "shape": shape, "inv_dx": inv_dx,
                        "field": impl.tolist(f), "velocity": impl.tolist(v[ax]), "cell": [int(i) + 2 for i in idx],
                        "residual": err,
                    }, samples
                if len(samples) < 2:
                    samples.append({"oracle": "face_match", "dim": dim, "axis": "xyz"[ax], "shape": shape, "max_residual": err})
    return True, cases, None, samples


def _step_sum(seed, n_cases):
    import sopht.simulator as sps

    cases = 0
    samples = []
    for t in range(n_cases):
        r = impl.rng(seed, "c04sum", t)
        ny, nx = int(r.integers(24, 33)), int(r.integers(24, 33))
        sim = sps.UnboundedNavierStokesFlowSimulator2D(
            grid_size=(ny, nx), x_range=1.0, kinematic_viscosity=float(r.uniform(1e-3, 1e-2)), real_t=np.float64,
            with_forcing=True, with_free_stream_flow=True, flow_density=float(r.uniform(0.5, 2.0)),
            penalty_zone_width=2,
        )
        m = 8
        sim.vorticity_field[m:-m, m:-m] = r.normal(size=(ny - 2 * m, nx - 2 * m))
        sim.eul_grid_forcing_field[:, m:-m, m:-m] = r.normal(size=(2, ny - 2 * m, nx - 2 * m))
        sim.velocity_field[...] = r.normal(size=sim.velocity_field.shape)
        before = float(np.sum(sim.vorticity_field))
        dt = float(r.uniform(1e-4, 1e-3))
        sim.time_step(dt=dt, free_stream_velocity=r.normal(size=2))
        after = float(np.sum(sim.vorticity_field))
        cases += 1
        scale = max(1.0, float(np.sum(np.abs(sim.vorticity_field))))
        if abs(after - before) > 1e-10 * scale:
            return False, cases, {"oracle": "step_sum_2d", "grid": [ny, nx], "seed_case": t, "before": before,
                                  "after": after, "dt": dt}, samples
        if len(samples) < 1:
            samples.append({"oracle": "step_sum_2d", "grid": [ny, nx], "drift": after - before})
    # ---- 3D Navier-Stokes (each vorticity component; filter off / both types) and passive transport (2D, 3D scalar, 3D vector)
    import warnings

    filts = [None, (1, "multiplicative"), (2, "convolution")]
    for t in range(max(1, n_cases // 2)):
        for fi_, filt in enumerate(filts):
            r = impl.rng(seed, "c04sum3d", t, fi_)
            shape = tuple(int(v) for v in r.integers(18, 23, size=3))
            kw = {} if filt is None else dict(filter_vorticity=True, filter_setting_dict={"order": filt[0], "type": filt[1]})
            with warnings.catch_warnings():
                warnings.simplefilter("ignore")
                sim = sps.UnboundedNavierStokesFlowSimulator3D(grid_size=shape, x_range=1.0, kinematic_viscosity=float(r.uniform(1e-3, 1e-2)),
                                                               real_t=np.float64, with_forcing=True, with_free_stream_flow=True,
                                                               flow_density=float(r.uniform(0.5, 2.0)), penalty_zone_width=1, **kw)
            m = 7
            I = (slice(None),) + (slice(m, -m),) * 3
            sim.vorticity_field[I] = r.normal(size=sim.vorticity_field[I].shape)
            sim.eul_grid_forcing_field[I] = r.normal(size=sim.eul_grid_forcing_field[I].shape)
            sim.velocity_field[...] = r.normal(size=sim.velocity_field.shape)
            sim.buffer_vector_field[...] = r.normal(size=sim.buffer_vector_field.shape)
            before = sim.vorticity_field.reshape(3, -1).sum(axis=1)
            dt = float(r.uniform(1e-4, 1e-3))
            with warnings.catch_warnings():
                warnings.simplefilter("ignore")
                sim.time_step(dt=dt, free_stream_velocity=r.normal(size=3))
            after = sim.vorticity_field.reshape(3, -1).sum(axis=1)
            cases += 1
            scale = max(1.0, float(np.sum(np.abs(sim.vorticity_field))))
            if np.abs(after - before).max() > 1e-10 * scale:
                return False, cases, {"oracle": "step_sum_3d", "grid": list(shape), "filter": str(filt), "before": before.tolist(),
                                      "after": after.tolist(), "dt": dt}, samples
    for dim, ft in ((2, "scalar"), (3, "scalar"), (3, "vector")):
        r = impl.rng(seed, "c04passive", dim, ft)
        shape = tuple(int(v) for v in r.integers(18, 24, size=dim))
        sim = sps.PassiveTransportFlowSimulator(kinematic_viscosity=float(r.uniform(1e-3, 1e-2)), grid_dim=dim, grid_size=shape, x_range=1.0,
                                                real_t=np.float64, field_type=ft)
        m = 6
        lead = (slice(None),) if ft == "vector" else ()
        I = lead + (slice(m, -m),) * dim
        sim.primary_field[I] = r.normal(size=sim.primary_field[I].shape)
        sim.velocity_field[...] = r.normal(size=sim.velocity_field.shape)
        sim.buffer_scalar_field[...] = r.normal(size=sim.buffer_scalar_field.shape)
        before = sim.primary_field.reshape(-1 if ft == "scalar" else dim, int(np.prod(shape))).sum(axis=-1)
        sim.time_step(dt=float(r.uniform(1e-4, 1e-3)))
        after = sim.primary_field.reshape(-1 if ft == "scalar" else dim, int(np.prod(shape))).sum(axis=-1)
        cases += 1
        scale = max(1.0, float(np.sum(np.abs(sim.primary_field))))
        if np.abs(np.asarray(after) - np.asarray(before)).max() > 1e-10 * scale:
            return False, cases, {"oracle": "step_sum_passive", "dim": dim, "field_type": ft, "grid": list(shape),
                                  "before": np.asarray(before).tolist(), "after": np.asarray(after).tolist()}, samples
    return True, cases, None, samples


def run(seed=0, tier="quick", aimed=None):
    import traceback

    n = 4 if tier == "quick" else 40
    cases, samples, errors = 0, [], []
    # the parts are independent: one that cannot run on a changed tree (e.g. a kernel it looks up by name is gone) must not
    # keep the others from searching
    for part, arg in ((_face_match, n), (_step_sum, 2 if tier == "quick" else 10)):
        try:
            ok, c, fi, s = part(seed, arg)
        except Exception:  # noqa: BLE001
            errors.append(f"{part.__name__}: " + traceback.format_exc()[-1500:])
            continue
        cases += c
        samples += s
        if not ok:
            return {"ok": False, "cases": cases, "failing_input": fi, "samples": samples, "part_errors": errors}
    if errors and aimed is not None and not aimed:
        raise RuntimeError("C04 oracle part crashed on a tree with no broken obligation:\n" + "\n".join(errors))
    return {"ok": True, "cases": cases, "failing_input": None, "samples": samples, "part_errors": errors}


def replay(fi):
    return run(seed=fi.get("seed", 0), tier="thorough")
