"""C04 oracle on the real implementation: face-flux matching of the ENO3 kernels, and conservation of
the grid sum over a full time step for compactly supported fields."""
import numpy as np

import impl
from impl import spne


def _face_match(seed, n_cases):
    cases = 0
    samples = []
    for dim in (2, 3):
        gen = getattr(spne, f"gen_advection_flux_conservative_eno3_pyst_kernel_{dim}d")
        for t in range(n_cases):
            r = impl.rng(seed, "c04face", dim, t)
            shape = tuple(int(x) for x in r.integers(6, 11, size=dim))
            kern = gen(real_t=np.float64)
            # capture the single-axis kernels created by the generator
            ks = impl.shim.REGISTRY[-2 * dim:]
            f = r.normal(size=shape)
            v = r.normal(size=(dim, *shape))
            if t % 3 == 0:  # sign patterns with exact ties and zeros
                v = np.sign(v) * r.integers(0, 3, size=v.shape)
            inv_dx = float(r.uniform(0.5, 3.0))
            for ax in range(dim):  # ax = velocity component index (0 = x = last array axis)
                front = [k for k in ks if f"_{'xyz'[ax]}_front_" in k.name][0]
                back = [k for k in ks if f"_{'xyz'[ax]}_back_" in k.name][0]
                a1 = np.zeros(shape)
                a2 = np.zeros(shape)
                vn = "velocity_" + "xyz"[ax]
                front(advection_flux=a1, field=f, inv_dx=inv_dx, **{vn: v[ax]})
                back(advection_flux=a2, field=f, inv_dx=inv_dx, **{vn: v[ax]})
                axis = dim - 1 - ax
                # increment at cell c through front face + increment at c+e through back face
                sl_c = [slice(2, -3)] * dim
                sl_n = [slice(2, -3)] * dim
                sl_n[axis] = slice(3, -2)
                res = a1[tuple(sl_c)] + a2[tuple(sl_n)]
                cases += 1
                err = float(np.max(np.abs(res))) / max(1.0, float(np.max(np.abs(a1))))
                if err > 1e-12:
                    idx = np.unravel_index(np.argmax(np.abs(res)), res.shape)
                    return False, cases, {
                        "oracle": "face_match", "dim": dim, "axis": "xyz"[ax], "shape": shape, "inv_dx": inv_dx,
                        "field": impl.tolist(f), "velocity": impl.tolist(v[ax]), "cell": [int(i) + 2 for i in idx],
                        "residual": err,
                    }, samples
                if len(samples) < 2:
                    samples.append({"oracle": "face_match", "dim": dim, "axis": "xyz"[ax], "shape": shape, "max_residual": err})
    return True, cases, None, samples


def _step_sum(seed, n_cases):
    import sopht.simulator as sps

    cases = 0
    samples = []
    for t in range(n_cases):
        r = impl.rng(seed, "c04sum", t)
        ny, nx = int(r.integers(24, 33)), int(r.integers(24, 33))
        sim = sps.UnboundedNavierStokesFlowSimulator2D(
            grid_size=(ny, nx), x_range=1.0, kinematic_viscosity=float(r.uniform(1e-3, 1e-2)), real_t=np.float64,
            with_forcing=True, with_free_stream_flow=True, flow_density=float(r.uniform(0.5, 2.0)),
            penalty_zone_width=2,
        )
        m = 8
        sim.vorticity_field[m:-m, m:-m] = r.normal(size=(ny - 2 * m, nx - 2 * m))
        sim.eul_grid_forcing_field[:, m:-m, m:-m] = r.normal(size=(2, ny - 2 * m, nx - 2 * m))
        sim.velocity_field[...] = r.normal(size=sim.velocity_field.shape)
        before = float(np.sum(sim.vorticity_field))
        dt = float(r.uniform(1e-4, 1e-3))
        sim.time_step(dt=dt, free_stream_velocity=r.normal(size=2))
        after = float(np.sum(sim.vorticity_field))
        cases += 1
        scale = max(1.0, float(np.sum(np.abs(sim.vorticity_field))))
        if abs(after - before) > 1e-10 * scale:
            return False, cases, {"oracle": "step_sum_2d", "grid": [ny, nx], "seed_case": t, "before": before,
                                  "after": after, "dt": dt}, samples
        if len(samples) < 1:
            samples.append({"oracle": "step_sum_2d", "grid": [ny, nx], "drift": after - before})
    return True, cases, None, samples


def run(seed=0, tier="quick", aimed=None):
    n = 4 if tier == "quick" else 40
    ok, c1, fi, s1 = _face_match(seed, n)
    if not ok:
        return {"ok": False, "cases": c1, "failing_input": fi, "samples": s1}
    ok, c2, fi, s2 = _step_sum(seed, 2 if tier == "quick" else 10)
    return {"ok": ok, "cases": c1 + c2, "failing_input": fi, "samples": s1 + s2}


def replay(fi):
    return run(seed=fi.get("seed", 0), tier="thorough")
