"""C05 oracle: the real kernels (through the shim's numpy interpreter) on sampled polynomial fields
of degree ≤ 2 against analytic derivatives."""
import numpy as np

import impl
from impl import spne
import ref as R


def _quad(r, dim):
    n = {2: 6, 3: 10}[dim]
    return r.normal(size=n)


def _eval2(c, X, Y):
    return c[0] + c[1] * X + c[2] * Y + c[3] * X * X + c[4] * X * Y + c[5] * Y * Y


def _dx2(c, X, Y):
    return c[1] + 2 * c[3] * X + c[4] * Y


def _dy2(c, X, Y):
    return c[2] + c[4] * X + 2 * c[5] * Y


def _eval3(c, X, Y, Z):
    return (c[0] + c[1] * X + c[2] * Y + c[3] * Z + c[4] * X * X + c[5] * Y * Y + c[6] * Z * Z
            + c[7] * X * Y + c[8] * X * Z + c[9] * Y * Z)


def _d3(c, X, Y, Z):
    return (c[1] + 2 * c[4] * X + c[7] * Y + c[8] * Z,
            c[2] + 2 * c[5] * Y + c[7] * X + c[9] * Z,
            c[3] + 2 * c[6] * Z + c[8] * X + c[9] * Y)


def run(seed=0, tier="quick", aimed=None):
    n = 2 if tier == "quick" else 20
    cases = 0
    samples = []
    tol = 1e-9

    def fail(name, err, extra):
        d = {"oracle": "poly_exactness", "kernel": name, "error": err}
        d.update(extra)
        return {"ok": False, "cases": cases, "failing_input": d, "samples": samples}

    for t in range(n):
        r = impl.rng(seed, "c05", t)
        h = float(r.uniform(0.05, 0.5))
        # ---------------- 2D
        ny, nx = int(r.integers(5, 9)), int(r.integers(5, 9))
        x = (np.arange(nx) + 0.5) * h
        y = (np.arange(ny) + 0.5) * h
        Y, X = np.meshgrid(y, x, indexing="ij")
        I = (slice(1, -1), slice(1, -1))
        p, q = _quad(r, 2), _quad(r, 2)
        P, Q = _eval2(p, X, Y), _eval2(q, X, Y)
        c = float(r.uniform(0.1, 2.0))
        extra = {"h": h, "grid": [ny, nx], "coeffs": [impl.tolist(p), impl.tolist(q)], "c": c}
        out = r.normal(size=(ny, nx))   # output arrays start dirty: the kernel must overwrite its region
        spne.gen_diffusion_flux_pyst_kernel_2d(real_t=np.float64, reset_ghost_zone=False)(
            diffusion_flux=out, field=P, prefactor=c / h**2)
        e = impl.relerr(out[I], np.full_like(out[I], c * (2 * p[3] + 2 * p[5]))); cases += 1
        if e > tol:
            return fail("diffusion_flux_2d", e, extra)
        out = r.normal(size=(ny, nx))   # output arrays start dirty: the kernel must overwrite its region
        spne.gen_inplane_field_curl_pyst_kernel_2d(real_t=np.float64)(curl=out, field=np.array([P, Q]), prefactor=0.5 / h)
        e = impl.relerr(out[I], (_dx2(q, X, Y) - _dy2(p, X, Y))[I]); cases += 1
        if e > tol:
            return fail("inplane_field_curl_2d", e, extra)
        out2 = r.normal(size=(2, ny, nx))   # output arrays start dirty: the kernel must overwrite its region
        spne.gen_outplane_field_curl_pyst_kernel_2d(real_t=np.float64, reset_ghost_zone=False)(
            curl=out2, field=P, prefactor=0.5 / h)
        e = max(impl.relerr(out2[0][I], _dy2(p, X, Y)[I]), impl.relerr(out2[1][I], -_dx2(p, X, Y)[I])); cases += 1
        if e > tol:
            return fail("outplane_field_curl_2d", e, extra)
        w = r.normal(size=(ny, nx)); w0 = w.copy()
        spne.gen_update_vorticity_from_velocity_forcing_pyst_kernel_2d(real_t=np.float64)(
            vorticity_field=w, velocity_forcing_field=np.array([P, Q]), prefactor=c / (2 * h))
        e = impl.relerr(w[I], (w0 + c * (_dx2(q, X, Y) - _dy2(p, X, Y)))[I]); cases += 1
        if e > tol:
            return fail("update_vorticity_from_velocity_forcing_2d", e, extra)
        p2, q2 = _quad(r, 2), _quad(r, 2)
        w = r.normal(size=(ny, nx)); w0 = w.copy()
        spne.gen_update_vorticity_from_penalised_velocity_pyst_kernel_2d(real_t=np.float64)(
            vorticity_field=w, penalised_velocity_field=np.array([P, Q]),
            velocity_field=np.array([_eval2(p2, X, Y), _eval2(q2, X, Y)]), prefactor=c / (2 * h))
        want = w0 + c * ((_dx2(q, X, Y) - _dx2(q2, X, Y)) - (_dy2(p, X, Y) - _dy2(p2, X, Y)))
        e = impl.relerr(w[I], want[I]); cases += 1
        if e > tol:
            return fail("update_vorticity_from_penalised_velocity_2d", e, extra)
        # ENO3: cubic nodal flux with one-signed velocity; quadratic with mixed signs
        cub = r.normal(size=4)
        for mode in ("pos", "neg", "mixed"):
            vel = r.uniform(0.5, 2.0, size=(2, ny + 4, nx + 4))
            xx = (np.arange(nx + 4) + 0.5) * h
            yy = (np.arange(ny + 4) + 0.5) * h
            YY, XX = np.meshgrid(yy, xx, indexing="ij")
            cc = cub.copy()
            if mode == "neg":
                vel = -vel
            if mode == "mixed":
                vel = vel * np.sign(r.normal(size=vel.shape))
                cc[3] = 0.0
            for ax, coord in ((0, XX), (1, YY)):
                qn = cc[0] + cc[1] * coord + cc[2] * coord**2 + cc[3] * coord**3
                dq = cc[1] + 2 * cc[2] * coord + 3 * cc[3] * coord**2
                fld = qn / vel[ax]
                flux = np.zeros_like(fld)
                v2 = np.zeros_like(vel); v2[ax] = vel[ax]
                # the other component contributes 0 flux only if its nodal flux is constant: use zero velocity
                spne.gen_advection_flux_conservative_eno3_pyst_kernel_2d(real_t=np.float64)(
                    advection_flux=flux, field=fld, velocity=v2, inv_dx=1.0 / h)
                J = (slice(2, -2), slice(2, -2))
                e = impl.relerr(flux[J], dq[J]); cases += 1
                if e > 1e-8:
                    return fail(f"advection_flux_eno3_2d axis={'xy'[ax]} mode={mode}", e,
                                {"h": h, "grid": [ny + 4, nx + 4], "cubic": impl.tolist(cc)})
        # ---------------- 3D ENO3: nodal flux cubic along one axis, velocity varying ALONG that axis
        for mode in ("pos", "neg", "mixed"):
            S3 = tuple(int(v) for v in r.integers(7, 10, size=3))
            cc = r.normal(size=4)
            if mode == "mixed":
                cc[3] = 0.0
            for ax in range(3):  # component index: 0 = x = last array axis
                axis = 2 - ax
                coord1 = (np.arange(S3[axis]) + 0.5) * h
                shp = [1, 1, 1]; shp[axis] = S3[axis]
                coord = np.broadcast_to(coord1.reshape(shp), S3)
                vel1 = r.uniform(0.5, 2.0, size=S3[axis])
                if mode == "neg":
                    vel1 = -vel1
                if mode == "mixed":
                    vel1 = vel1 * np.sign(r.normal(size=vel1.shape))
                velc = np.broadcast_to(vel1.reshape(shp), S3) * r.uniform(0.8, 1.2, size=S3)
                qn = cc[0] + cc[1] * coord + cc[2] * coord**2 + cc[3] * coord**3
                dq = cc[1] + 2 * cc[2] * coord + 3 * cc[3] * coord**2
                fld = qn / velc
                v3 = np.zeros((3,) + S3); v3[ax] = velc
                flux = np.zeros(S3)
                spne.gen_advection_flux_conservative_eno3_pyst_kernel_3d(real_t=np.float64)(
                    advection_flux=flux, field=fld, velocity=v3, inv_dx=1.0 / h)
                J = (slice(2, -2),) * 3
                e = impl.relerr(flux[J], dq[J]); cases += 1
                if e > 1e-8:
                    return fail(f"advection_flux_eno3_3d axis={'xyz'[ax]} mode={mode}", e,
                                {"h": h, "grid": list(S3), "cubic": impl.tolist(cc), "velocity_along_axis": impl.tolist(vel1)})
        # ---------------- 3D
        nz, ny, nx = (int(v) for v in r.integers(4, 7, size=3))
        x = (np.arange(nx) + 0.5) * h; y = (np.arange(ny) + 0.5) * h; z = (np.arange(nz) + 0.5) * h
        Z, Y, X = np.meshgrid(z, y, x, indexing="ij")
        I = (slice(1, -1),) * 3
        cs = [_quad(r, 3) for _ in range(3)]
        F = np.array([_eval3(cc_, X, Y, Z) for cc_ in cs])
        D = [_d3(cc_, X, Y, Z) for cc_ in cs]  # D[comp][axis]
        extra = {"h": h, "grid": [nz, ny, nx], "coeffs": [impl.tolist(cc_) for cc_ in cs], "c": c}
        out = r.normal(size=(nz, ny, nx))   # output arrays start dirty: the kernel must overwrite its region
        spne.gen_diffusion_flux_pyst_kernel_3d(real_t=np.float64, reset_ghost_zone=False)(
            diffusion_flux=out, field=F[0], prefactor=c / h**2)
        e = impl.relerr(out[I], np.full_like(out[I], c * 2 * (cs[0][4] + cs[0][5] + cs[0][6]))); cases += 1
        if e > tol:
            return fail("diffusion_flux_3d", e, extra)
        out3 = r.normal(size=(3, nz, ny, nx))   # output arrays start dirty: the kernel must overwrite its region
        spne.gen_curl_pyst_kernel_3d(real_t=np.float64, reset_ghost_zone=False)(curl=out3, field=F, prefactor=0.5 / h)
        want = np.array([D[2][1] - D[1][2], D[0][2] - D[2][0], D[1][0] - D[0][1]])
        e = impl.relerr(out3[(slice(None),) + I], want[(slice(None),) + I]); cases += 1
        if e > tol:
            return fail("curl_3d", e, extra)
        out = r.normal(size=(nz, ny, nx))   # output arrays start dirty: the kernel must overwrite its region
        spne.gen_divergence_pyst_kernel_3d(real_t=np.float64, reset_ghost_zone=False)(divergence=out, field=F, inv_dx=1.0 / h)
        e = impl.relerr(out[I], (D[0][0] + D[1][1] + D[2][2])[I]); cases += 1
        if e > tol:
            return fail("divergence_3d", e, extra)
        w = r.normal(size=(3, nz, ny, nx)); w0 = w.copy()
        spne.gen_update_vorticity_from_velocity_forcing_pyst_kernel_3d(real_t=np.float64)(
            vorticity_field=w, velocity_forcing_field=F, prefactor=c / (2 * h))
        e = impl.relerr(w[(slice(None),) + I], (w0 + c * want)[(slice(None),) + I]); cases += 1
        if e > tol:
            return fail("update_vorticity_from_velocity_forcing_3d", e, extra)
        cs2 = [_quad(r, 3) for _ in range(3)]
        F2 = np.array([_eval3(cc_, X, Y, Z) for cc_ in cs2])
        D2 = [_d3(cc_, X, Y, Z) for cc_ in cs2]
        want2 = np.array([D2[2][1] - D2[1][2], D2[0][2] - D2[2][0], D2[1][0] - D2[0][1]])
        w = r.normal(size=(3, nz, ny, nx)); w0 = w.copy()
        spne.gen_update_vorticity_from_penalised_velocity_pyst_kernel_3d(real_t=np.float64)(
            vorticity_field=w, penalised_velocity_field=F, velocity_field=F2, prefactor=c / (2 * h))
        e = impl.relerr(w[(slice(None),) + I], (w0 + c * (want - want2))[(slice(None),) + I]); cases += 1
        if e > tol:
            return fail("update_vorticity_from_penalised_velocity_3d", e, {**extra, "coeffs_velocity": [impl.tolist(cc_) for cc_ in cs2]})
        om = r.normal(size=(3, nz, ny, nx))
        out3 = r.normal(size=(3, nz, ny, nx))   # output arrays start dirty: the kernel must overwrite its region
        spne.gen_vorticity_stretching_flux_pyst_kernel_3d(real_t=np.float64)(
            vorticity_stretching_flux_field=out3, vorticity_field=om, velocity_field=F, prefactor=c / (2 * h))
        ws = np.array([c * (om[0] * D[k][0] + om[1] * D[k][1] + om[2] * D[k][2]) for k in range(3)])
        e = impl.relerr(out3[(slice(None),) + I], ws[(slice(None),) + I]); cases += 1
        if e > tol:
            return fail("vorticity_stretching_flux_3d", e, extra)
        if len(samples) < 2:
            samples.append({"oracle": "poly_exactness", "h": h, "grid3d": [nz, ny, nx], "kernels_checked": cases})
    # ---- the simulators' own coordinate field (axis convention of _init_domain): x along the LAST array axis, cell centres
    #      at (index + 1/2) dx, dx = x_range / nx, the other extents follow from dx; and a stencil evaluated on a polynomial
    #      sampled on THAT field reproduces the derivative
    import warnings

    import sopht.simulator as sps

    for t in range(2 if tier == "quick" else 6):
        for dim in (2, 3):
            r2 = impl.rng(seed, "c05domain", t, dim)
            while True:
                shape = tuple(int(v) for v in r2.integers(6, 12, size=dim))
                if len(set(shape)) == dim and shape[-1] % 2 == (t % 2):      # odd and even cell counts along x
                    break
            xr = float(r2.uniform(0.5, 3.0))
            sims = []
            with warnings.catch_warnings():
                warnings.simplefilter("ignore")
                sims.append(("passive", sps.PassiveTransportFlowSimulator(kinematic_viscosity=0.01, grid_dim=dim, grid_size=shape, x_range=xr, real_t=np.float64)))
                if dim == 2:
                    sims.append(("ns2d", sps.UnboundedNavierStokesFlowSimulator2D(grid_size=shape, x_range=xr, kinematic_viscosity=0.01, real_t=np.float64)))
                else:
                    sims.append(("ns3d", sps.UnboundedNavierStokesFlowSimulator3D(grid_size=shape, x_range=xr, kinematic_viscosity=0.01, real_t=np.float64)))
            for name, sim in sims:
                cases += 1
                dxs = xr / shape[-1]
                info = {"simulator": name, "grid": list(shape), "x_range": xr}
                if abs(float(sim.dx) - dxs) > 1e-14 * dxs:
                    return fail("domain_dx", abs(float(sim.dx) - dxs), info)
                idx = np.indices(shape)
                for c_ in range(dim):
                    want = (idx[dim - 1 - c_] + 0.5) * dxs
                    e = float(np.max(np.abs(np.asarray(sim.position_field[c_], dtype=np.float64) - want)))
                    if e > 1e-12 * xr:
                        return fail(f"domain_position_field_component_{c_}_not_(index_along_array_axis_{dim - 1 - c_}+1/2)dx", e, info)
                ranges = [float(sim.x_range), float(sim.y_range)] + ([float(sim.z_range)] if dim == 3 else [])
                for c_ in range(dim):
                    if abs(ranges[c_] - dxs * shape[dim - 1 - c_]) > 1e-12 * xr:
                        return fail(f"domain_range_{'xyz'[c_]}", abs(ranges[c_] - dxs * shape[dim - 1 - c_]), info)
                # Laplacian of a quadratic sampled on the simulator's own coordinates
                q_ = r2.normal(size=dim)
                P_ = sum(q_[c_] * np.asarray(sim.position_field[c_], dtype=np.float64) ** 2 for c_ in range(dim))
                out_ = r2.normal(size=shape)   # output arrays start dirty: the kernel must overwrite its region
                gen = spne.gen_diffusion_flux_pyst_kernel_2d if dim == 2 else spne.gen_diffusion_flux_pyst_kernel_3d
                gen(real_t=np.float64, reset_ghost_zone=False)(diffusion_flux=out_, field=P_, prefactor=1.0 / float(sim.dx) ** 2)
                I_ = (slice(1, -1),) * dim
                e = impl.relerr(out_[I_], np.full_like(out_[I_], 2 * float(np.sum(q_))))
                if e > tol:
                    return fail("laplacian_on_simulator_coordinates", e, info)
                # the velocity a Navier-Stokes step recovers is the centred curl of ITS stream function with 1/(2 dx), whatever the
                # prefactor the simulator forms (odd / even cell counts, any x_range)
                if name in ("ns2d", "ns3d"):
                    sim.vorticity_field[...] = r2.normal(size=sim.vorticity_field.shape)
                    with warnings.catch_warnings():
                        warnings.simplefilter("ignore")
                        sim.time_step(dt=1e-3)
                    psi = np.asarray(sim.stream_func_field, dtype=np.float64)
                    u = np.asarray(sim.velocity_field, dtype=np.float64)
                    if dim == 2:
                        I2 = (slice(1, -1), slice(1, -1))
                        want_u = np.array([R.dc(psi, 1), -R.dc(psi, 0)]) / (2 * dxs)
                        e = impl.relerr(u[(slice(None),) + I2], want_u)
                    else:
                        I3 = (slice(None),) + (slice(1, -1),) * 3
                        e = impl.relerr(u[I3], R.curl3(psi) / (2 * dxs))
                    cases += 1
                    if e > 1e-10:
                        return fail("velocity_recovery_prefactor_1_over_2dx", e, info)
    return {"ok": True, "cases": cases, "failing_input": None, "samples": samples}


def replay(fi):
    return run(seed=fi.get("seed", 0), tier="thorough")
