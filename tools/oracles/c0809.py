"""C08 / C09 oracles on real PyElastica objects and SophT forcing grids: random poses, director frames
(generic rotations so transposition / sign errors do not cancel), velocities, angular velocities, tapered
radii CHANGED AFTER grid construction (stretching rods), all four rod grids (surface with and without caps),
2D cylinder, 3D cylinder, sphere, plane; balance equations (C08) and rigid-section kinematics (C09) evaluated
with an independent numpy bookkeeping."""
import warnings

import numpy as np

import impl

import elastica as ea
import sopht.simulator.immersed_body as spi


def rand_rot(r):
    q = r.normal(size=4); q /= np.linalg.norm(q)
    a, b, c, d = q
    return np.array([[a*a+b*b-c*c-d*d, 2*(b*c-a*d), 2*(b*d+a*c)],
                     [2*(b*c+a*d), a*a-b*b+c*c-d*d, 2*(c*d-a*b)],
                     [2*(b*d-a*c), 2*(c*d+a*b), a*a-b*b-c*c+d*d]])


def make_rod(r, n, dim):
    # planar rods: the normal d1 may be +z, -z or lie IN the plane (then d2 = +-z carries the planar spin): the director
    # convention is the user's choice, every shipped example happens to use +z
    normal = np.array([0, 0, 1.0])
    if dim == 2:
        normal = [np.array([0, 0, 1.0]), np.array([0, 0, -1.0]), np.array([0, 1.0, 0]), np.array([0, -1.0, 0])][int(r.integers(0, 4))]
    rod = ea.CosseratRod.straight_rod(n, np.zeros(3), np.array([1.0, 0, 0]), normal, 1.0, 0.05, 1000.0,
                                      youngs_modulus=1e6, shear_modulus=4e5)
    return rod


def perturb_rod(r, rod, dim):
    n = rod.n_elems
    rod.position_collection[...] += r.normal(size=(3, n + 1)) * 0.03
    rod.velocity_collection[...] = r.normal(size=(3, n + 1))
    rod.omega_collection[...] = r.normal(size=(3, n))
    if dim == 2:
        rod.position_collection[2] = 0; rod.velocity_collection[2] = 0
        for e in range(n):
            th = r.uniform(0, 2 * np.pi)
            # planar frames: d3 = tangent in plane, d1 = z? keep a proper rotation about z composed with the initial frame
            Rz = np.array([[np.cos(th), -np.sin(th), 0], [np.sin(th), np.cos(th), 0], [0, 0, 1]])
            rod.director_collection[:, :, e] = rod.director_collection[:, :, e] @ Rz.T
        if r.random() < 0.7:
            # planar motion: the lab-frame angular velocity is along z, whatever the director convention
            for e in range(n):
                rod.omega_collection[:, e] = rod.director_collection[:, :, e] @ np.array([0.0, 0.0, r.normal()])
    else:
        for e in range(n):
            rod.director_collection[:, :, e] = rand_rot(r)
    rod.radius[:] = r.uniform(0.02, 0.08, size=n)      # taper / stretch after construction
    rod.mass[:] = r.uniform(0.5, 2.0, size=n + 1)
    d = rod.position_collection[:, 1:] - rod.position_collection[:, :-1]
    rod.lengths[:] = np.linalg.norm(d, axis=0)
    rod.tangents[:] = d / rod.lengths


def elem_velocity(rod):
    m, v = rod.mass, rod.velocity_collection
    return (m[1:] * v[:, 1:] + m[:-1] * v[:, :-1]) / (m[1:] + m[:-1])


def cross(a, b):
    return np.cross(a, b, axis=0)


def pad3(a):
    out = np.zeros((3, a.shape[1])); out[: a.shape[0]] = a
    return out


def check_rod_grid(r, name, grid, rod, dim, info):
    """returns None or failure dict"""
    n = rod.n_elems
    grid.compute_lag_grid_position_field(); grid.compute_lag_grid_velocity_field()
    N = grid.num_lag_nodes
    f = r.normal(size=(dim, N))
    # the interaction objects hand the SAME persistent arrays to every evaluation: the transfer must overwrite them, so they start
    # dirty here (the nodal and element-centric grids document that they leave the couples as initialised: zero)
    F = r.normal(size=(3, n + 1)); T = r.normal(size=(3, n))
    if name in ("nodal", "element"):
        T[...] = 0.0
    grid.transfer_forcing_from_grid_to_body(body_flow_forces=F, body_flow_torques=T, lag_grid_forcing_field=f.copy())
    X = pad3(grid.position_field); Vm = pad3(grid.velocity_field); f3 = pad3(f)
    O = r.normal(size=(3, 1))
    tol = 1e-11

    def fail(what, **kw):
        return {"oracle": "c08" if what.startswith("C08") else "c09", "what": what, "grid": name, **info, **kw}

    # C08 force
    if np.abs(F.sum(axis=1)[:dim] + f.sum(axis=1)).max() > tol * (1 + np.abs(f).sum()):
        return fail("C08 net force on the body != -(sum of marker forces)", net_body=F.sum(axis=1).tolist(), marker_sum=f.sum(axis=1).tolist())
    # C08 moment (not for the nodal grid, which the property excludes)
    if name != "nodal":
        Qt = np.transpose(rod.director_collection, (1, 0, 2))
        couples = np.einsum("ijk,jk->ik", Qt, T)
        lhs = cross(rod.position_collection - O, F).sum(axis=1) + couples.sum(axis=1)
        rhs = -cross(X - O, f3).sum(axis=1)
        comp = slice(2, 3) if dim == 2 else slice(0, 3)
        if np.abs(lhs[comp] - rhs[comp]).max() > tol * (1 + np.abs(rhs).max() + np.abs(f).sum()):
            return fail("C08 net moment of nodal forces + element couples != -(moment of marker forces)", lhs=lhs.tolist(), rhs=rhs.tolist())
    # C09 kinematics
    xc = 0.5 * (rod.position_collection[:, 1:] + rod.position_collection[:, :-1])
    ve = elem_velocity(rod)
    om = np.einsum("jik,jk->ik", rod.director_collection, rod.omega_collection)  # Q^T omega
    if name == "nodal":
        if not (np.array_equal(grid.position_field, rod.position_collection[:dim]) and np.array_equal(grid.velocity_field, rod.velocity_collection[:dim])):
            return fail("C09 nodal grid differs from node positions / velocities")
        return None
    if name == "element":
        owner = np.arange(n); ratio = np.zeros(n)
    elif name == "edge":
        owner = np.concatenate([np.arange(n)] * 3); ratio = np.concatenate([np.zeros(n), np.ones(2 * n)])
    else:
        owner = np.concatenate([np.full(grid.end_idx[e] - grid.start_idx[e], e) for e in range(n)])
        ratio = grid.grid_point_radius_ratio.copy()
        for e in range(n):
            if grid.end_idx[e] - grid.start_idx[e] == 1 and not np.any(grid.local_frame_surface_points[:, grid.start_idx[e]]):
                ratio[grid.start_idx[e]] = 0.0
    arm = X - xc[:, owner]
    vexp = ve[:, owner] + cross(om[:, owner], arm)
    d = dim
    if np.abs(Vm[:d] - vexp[:d]).max() > tol * (1 + np.abs(vexp).max()):
        return fail("C09 marker velocity != element velocity + (lab-frame element angular velocity) x (marker offset)",
                    max_dev=float(np.abs(Vm[:d] - vexp[:d]).max()))
    dist = np.linalg.norm(arm, axis=0)
    want = rod.radius[owner] * ratio
    if np.abs(dist - want).max() > tol * (1 + want.max()):
        return fail("C09 surface/edge markers not at (local radius x cap ratio) from the element centre; centre markers not on it",
                    max_dev=float(np.abs(dist - want).max()))
    return None


def check_rigid(r, name, grid, body, dim, info, body_fixed=True):
    tol = 1e-11
    Q = body.director_collection[:, :, 0]
    grid.compute_lag_grid_position_field(); grid.compute_lag_grid_velocity_field()
    N = grid.num_lag_nodes
    f = r.normal(size=(dim, N))
    F = r.normal(size=(3, 1)); T = r.normal(size=(3, 1))       # dirty outputs (persistent arrays in the interaction objects)
    if dim == 2:
        F[2] = 0.0; T[:2] = 0.0                                   # 2D grids write the in-plane force and the z torque only
    grid.transfer_forcing_from_grid_to_body(body_flow_forces=F, body_flow_torques=T, lag_grid_forcing_field=f.copy())
    X = pad3(grid.position_field); Vm = pad3(grid.velocity_field); f3 = pad3(f)
    Xc = body.position_collection[:, 0:1]; V = body.velocity_collection[:, 0:1]
    Om_lab = Q.T @ body.omega_collection[:, 0:1]
    if dim == 2:
        Xc = Xc.copy(); Xc[2] = 0

    def fail(what, **kw):
        return {"oracle": "c08" if what.startswith("C08") else "c09", "what": what, "grid": name, **info, **kw}

    if np.abs(F[:dim, 0] + f.sum(axis=1)).max() > tol * (1 + np.abs(f).sum()):
        return fail("C08 net force on the body != -(sum of marker forces)")
    O = r.normal(size=(3, 1))
    if dim == 2:
        O[2] = 0
    lhs = cross(Xc - O, F)[:, 0] + (Q.T @ T)[:, 0]
    rhs = -cross(X - O, f3).sum(axis=1)
    comp = slice(2, 3) if dim == 2 else slice(0, 3)
    if np.abs(lhs[comp] - rhs[comp]).max() > tol * (1 + np.abs(rhs).max()):
        return fail("C08 moment of the transferred wrench != -(moment of marker forces)", lhs=lhs.tolist(), rhs=rhs.tolist())
    vexp = V + cross(Om_lab * np.ones((1, N)), X - Xc)
    if np.abs(Vm[:dim] - vexp[:dim]).max() > tol * (1 + np.abs(vexp).max()):
        return fail("C09 marker velocity != V + Omega_lab x (x_marker - X)", max_dev=float(np.abs(Vm[:dim] - vexp[:dim]).max()))
    power_body = float((F * V).sum() + ((Q.T @ T) * Om_lab).sum())
    power_markers = -float((f3 * pad3(grid.velocity_field)).sum())
    if abs(power_body - power_markers) > tol * (1 + abs(power_markers)) * 10:
        return fail("C08 power of the transferred wrench != -(power of marker forces at marker velocities)", body=power_body, markers=power_markers)
    # pose advance: markers of body-fixed grids move by velocity * h to second order; the sphere's markers translate
    h = 1e-6
    x0 = grid.position_field.copy(); v0 = grid.velocity_field.copy()
    saved = (body.position_collection.copy(), body.director_collection.copy())
    body.position_collection[:, 0] += h * body.velocity_collection[:, 0]
    w = Om_lab[:, 0]
    K = np.array([[0, -w[2], w[1]], [w[2], 0, -w[0]], [-w[1], w[0], 0]])
    body.director_collection[:, :, 0] = (np.eye(3) + h * K + 0.5 * h * h * K @ K) @ Q.T
    body.director_collection[:, :, 0] = body.director_collection[:, :, 0].T
    grid.compute_lag_grid_position_field()
    x1 = grid.position_field.copy()
    body.position_collection[...], body.director_collection[...] = saved
    grid.compute_lag_grid_position_field()
    if body_fixed:
        dev = np.abs((x1 - x0) / h - v0).max()
        if dev > 1e-4 * (1 + np.abs(v0).max()):
            return fail("C09 advancing the body pose along (V, Omega) does not move the markers by velocity x time", max_dev=float(dev))
    else:
        dev = np.abs((x1 - x0) / h - body.velocity_collection[:dim, 0:1]).max()
        if dev > 1e-4 * (1 + np.abs(v0).max()):
            return fail("C09 sphere markers do not translate with the centre", max_dev=float(dev))
    return None


def gen_cases(seed, tier):
    """yields (kind, name, grid, body, dim, info, body_fixed, rng): the grids are evaluated at states of the SAME body
    changed after construction"""
    n = 2 if tier == "quick" else 8
    for t in range(n):
        r = impl.rng(seed, "c0809", t)
        # ---- rods
        for dim in (2, 3):
            ne = int(r.integers(3, 8))
            grids = [("nodal", spi.CosseratRodNodalForcingGrid, {}), ("element", spi.CosseratRodElementCentricForcingGrid, {})]
            if dim == 2:
                grids.append(("edge", spi.CosseratRodEdgeForcingGrid, {}))
            else:
                grids += [("surface", spi.CosseratRodSurfaceForcingGrid, {"surface_grid_density_for_largest_element": int(r.integers(5, 10)), "with_cap": False}),
                          ("surface+caps", spi.CosseratRodSurfaceForcingGrid, {"surface_grid_density_for_largest_element": int(r.integers(6, 12)), "with_cap": True})]
            for name, cls, kw in grids:
                rod = make_rod(r, ne, dim)
                if name.startswith("surface"):
                    rod.radius[:] = r.uniform(0.02, 0.08, size=ne)   # taper before construction: varying marker counts
                    rod.radius[int(r.integers(0, ne))] *= 0.2         # one thin element: single centre marker
                grid = cls(grid_dim=dim, cosserat_rod=rod, **kw)
                for state in range(2):   # the grid is evaluated at later states of the SAME rod (stretch, re-pose)
                    perturb_rod(r, rod, dim)
                    info = {"dim": dim, "n_elems": ne, "state_after_construction": state + 1, **{k: v for k, v in kw.items()}}
                    yield ("rod", name.split("+")[0] if name.startswith("surface") else name, grid, rod, dim, info, True, r)

        # ---- rigid bodies
        def pose(body, planar=False):
            body.position_collection[:, 0] = r.normal(size=3) * 0.3
            body.velocity_collection[:, 0] = r.normal(size=3)
            body.omega_collection[:, 0] = r.normal(size=3)
            Q = rand_rot(r)
            if planar:
                th = r.uniform(0, 2 * np.pi)
                c_, s_ = np.cos(th), np.sin(th)
                if r.random() < 0.5:
                    Q = np.array([[c_, s_, 0], [-s_, c_, 0], [0, 0, 1]])
                else:   # cylinder axis along -z (rows d1, d2, d3 = d1 x d2)
                    Q = np.array([[c_, s_, 0], [s_, -c_, 0], [0, 0, -1.0]])
                body.omega_collection[:2, 0] = 0
            body.director_collection[:, :, 0] = Q

        cyl = ea.Cylinder(start=np.zeros(3), direction=np.array([0.0, 0, 1]), normal=np.array([1.0, 0, 0]), base_length=0.6, base_radius=0.15, density=1e3)
        g = spi.CircularCylinderForcingGrid(grid_dim=2, rigid_body=cyl, num_forcing_points=int(r.integers(6, 15)))
        for st in range(2):
            pose(cyl, planar=True)
            yield ("rigid", "cylinder2d", g, cyl, 2, {"state_after_construction": st + 1}, True, r)
        cyl3 = ea.Cylinder(start=np.zeros(3), direction=np.array([0.0, 0, 1]), normal=np.array([1.0, 0, 0]), base_length=0.6, base_radius=0.15, density=1e3)
        g = spi.OpenEndCircularCylinderForcingGrid(grid_dim=3, rigid_body=cyl3, num_forcing_points_along_length=int(r.integers(3, 7)))
        sph = ea.Sphere(center=np.zeros(3), base_radius=0.2, density=1e3)
        gs = spi.SphereForcingGrid(grid_dim=3, rigid_body=sph, num_forcing_points_along_equator=int(r.integers(6, 12)))
        pl = spi.RectangularPlane(origin=np.zeros(3), plane_normal=np.array([0.0, 0, 1]), plane_length=0.5, plane_breadth=0.3,
                                  plane_tangent_along_length=np.array([1.0, 0, 0]))
        gp = spi.RectangularPlaneForcingGrid(grid_dim=3, rigid_body=pl, num_forcing_points_along_length=int(r.integers(4, 8)))
        for name, grid, body, fixed in (("cylinder3d", g, cyl3, True), ("sphere", gs, sph, False), ("plane", gp, pl, True)):
            for st in range(2):
                pose(body)
                yield ("rigid", name, grid, body, 3, {"state_after_construction": st + 1}, fixed, r)


def run(seed=0, tier="quick", aimed=None, which=("c08", "c09")):
    cases = 0
    samples = []
    with warnings.catch_warnings():
        warnings.simplefilter("ignore")
        for kind, name, grid, body, dim, info, fixed, r in gen_cases(seed, tier):
            if kind == "rod":
                bad = check_rod_grid(r, name, grid, body, dim, info)
            else:
                bad = check_rigid(r, name, grid, body, dim, info, body_fixed=fixed)
            cases += 1
            if bad and bad["oracle"] in which:
                return {"ok": False, "cases": cases, "samples": samples, "failing_input": bad}
            if len(samples) < 3 and cases % 7 == 1:
                samples.append({"oracle": "c08/c09", "grid": name, **{k: str(v) for k, v in info.items()}})
    return {"ok": True, "cases": cases, "failing_input": None, "samples": samples}



def make_interaction(name, dim, r, reset, axis_sign=1.0):
    """a real simulator + a real body + its interaction object (cyl2d / rod2d: edge grid / sphere3d / rod3d: surface grid)"""
    import sopht.simulator as sps

    n = 40 if dim == 2 else 20
    shape = (n, n + 4) if dim == 2 else (n, n + 2, n + 4)
    if dim == 2:
        sim = sps.UnboundedNavierStokesFlowSimulator2D(grid_size=shape, x_range=1.0, kinematic_viscosity=1e-2, with_forcing=True, real_t=np.float64)
    else:
        sim = sps.UnboundedNavierStokesFlowSimulator3D(grid_size=shape, x_range=1.0, kinematic_viscosity=1e-2, with_forcing=True, real_t=np.float64)
    sim.velocity_field[...] = r.normal(size=sim.velocity_field.shape)
    centre = np.array([0.5 * sim.x_range, 0.5 * sim.y_range, 0.5 * getattr(sim, "z_range", 0.0)])
    kw = dict(eul_grid_forcing_field=sim.eul_grid_forcing_field, eul_grid_velocity_field=sim.velocity_field,
              virtual_boundary_stiffness_coeff=-float(r.uniform(1e2, 1e3)), virtual_boundary_damping_coeff=-float(r.uniform(1, 10)),
              dx=sim.dx, grid_dim=dim, real_t=np.float64, enable_eul_grid_forcing_reset=reset)
    if name == "cyl2d":
        body = ea.Cylinder(start=np.array([centre[0], centre[1], -0.05 * axis_sign]), direction=np.array([0.0, 0, axis_sign]), normal=np.array([1.0, 0, 0]),
                           base_length=0.1, base_radius=0.15, density=1e3)
        it = spi.RigidBodyFlowInteraction(rigid_body=body, forcing_grid_cls=spi.CircularCylinderForcingGrid, num_forcing_points=24, **kw)
    elif name == "sphere3d":
        body = ea.Sphere(center=centre.copy(), base_radius=0.2, density=1e3)
        it = spi.RigidBodyFlowInteraction(rigid_body=body, forcing_grid_cls=spi.SphereForcingGrid, num_forcing_points_along_equator=16, **kw)
    else:
        ne = 8
        start = centre - np.array([0.25, 0.0, 0.0])
        normal = np.array([0, 0, 1.0]) if (dim == 3 or axis_sign > 0) else np.array([0, 1.0, 0])
        body = ea.CosseratRod.straight_rod(ne, start, np.array([1.0, 0, 0]), normal, 0.5, 0.03, 1000.0,
                                           youngs_modulus=1e6, shear_modulus=4e5)
        body.position_collection[1] += 0.02 * np.sin(np.linspace(0, 3, ne + 1))
        d = body.position_collection[:, 1:] - body.position_collection[:, :-1]
        body.lengths[:] = np.linalg.norm(d, axis=0); body.tangents[:] = d / body.lengths
        gcls = spi.CosseratRodEdgeForcingGrid if dim == 2 else spi.CosseratRodSurfaceForcingGrid
        gkw = {} if dim == 2 else {"surface_grid_density_for_largest_element": 6}
        it = spi.CosseratRodFlowInteraction(cosserat_rod=body, forcing_grid_cls=gcls, **gkw, **kw)
    return sim, body, it, shape


def repose(r, name, body, dim):
    """a new admissible state of the body: small displacement, new orientation, new velocities"""
    if name.startswith("rod"):
        body.position_collection[...] += r.normal(size=body.position_collection.shape) * 0.004
        body.velocity_collection[...] = r.normal(size=body.velocity_collection.shape) * 0.3
        n = body.n_elems
        if dim == 2:
            body.position_collection[2] = 0; body.velocity_collection[2] = 0
            for e in range(n):
                th = r.uniform(-0.4, 0.4)
                Rz = np.array([[np.cos(th), -np.sin(th), 0], [np.sin(th), np.cos(th), 0], [0, 0, 1]])
                body.director_collection[:, :, e] = body.director_collection[:, :, e] @ Rz.T
                body.omega_collection[:, e] = body.director_collection[:, :, e] @ np.array([0.0, 0.0, r.normal()])
        else:
            for e in range(n):
                body.director_collection[:, :, e] = rand_rot(r)
            body.omega_collection[...] = r.normal(size=(3, n))
        d = body.position_collection[:, 1:] - body.position_collection[:, :-1]
        body.lengths[:] = np.linalg.norm(d, axis=0); body.tangents[:] = d / body.lengths
    else:
        body.position_collection[:, 0] += r.normal(size=3) * 0.004
        body.velocity_collection[:, 0] = r.normal(size=3) * 0.3
        if dim == 2:
            body.position_collection[2, 0] = body.position_collection[2, 0]
            body.velocity_collection[2, 0] = 0
            th = r.uniform(-0.6, 0.6)
            Rz = np.array([[np.cos(th), -np.sin(th), 0], [np.sin(th), np.cos(th), 0], [0, 0, 1]])
            body.director_collection[:, :, 0] = body.director_collection[:, :, 0] @ Rz.T
            body.omega_collection[:, 0] = body.director_collection[:, :, 0] @ np.array([0.0, 0.0, r.normal()])
        else:
            body.director_collection[:, :, 0] = rand_rot(r)
            body.omega_collection[:, 0] = r.normal(size=3)


def state_only(seed, tier):
    """Histories of re-posing / interactor() / compute_flow_forces_and_torques() / time_step on REAL bodies: right after every
    evaluation the forcing grid's marker positions and velocities must be those of the body's CURRENT state (a fresh
    position-then-velocity evaluation gives the same arrays bit for bit), and the velocity mismatch entering the feedback law must
    be `interpolated flow velocity - current marker velocity`."""
    cases = 0
    cfgs = [("cyl2d", 2, 1.0), ("cyl2d", 2, -1.0), ("rod2d", 2, 1.0), ("rod2d", 2, -1.0), ("sphere3d", 3, 1.0)] + ([("rod3d", 3, 1.0)] if tier != "quick" else [])
    for ci, (name, dim, sgn) in enumerate(cfgs):
        r = impl.rng(seed, "c10state", ci)
        with warnings.catch_warnings():
            warnings.simplefilter("ignore")
            sim, body, it, shape = make_interaction(name, dim, r, bool(ci % 2), axis_sign=sgn)
            g = it.forcing_grid
            hist = []
            for k in range(8 if tier == "quick" else 20):
                op = ["pose", "lag", "pose", "call", "step", "pose", "lag", "call"][k % 8] if k < 8 else str(r.choice(["pose", "lag", "call", "step"]))
                hist.append(op)
                if op == "pose":
                    repose(r, name, body, dim)
                    continue
                if op == "step":
                    it.time_step(dt=float(r.uniform(1e-3, 1e-2)))
                    continue
                if op == "lag":
                    it.compute_flow_forces_and_torques()
                else:
                    it()
                cases += 1
                P1, V1 = g.position_field.copy(), g.velocity_field.copy()
                D1 = it.lag_grid_velocity_mismatch_field.copy()
                U1 = it.lag_grid_flow_velocity_field.copy()
                g.compute_lag_grid_position_field(); g.compute_lag_grid_velocity_field()
                info = {"body": name, "dim": dim, "axis_or_normal_sign": sgn, "history": list(hist), "grid": list(shape)}
                if P1.tobytes() != g.position_field.tobytes() or V1.tobytes() != g.velocity_field.tobytes():
                    return cases, {"oracle": "c10_markers_of_current_state", **info,
                                   "what": "after the evaluation the forcing grid's marker positions / velocities are not those of the body's current state "
                                           "(a fresh position-then-velocity evaluation differs)",
                                   "max_position_dev": float(np.abs(P1 - g.position_field).max()), "max_velocity_dev": float(np.abs(V1 - g.velocity_field).max())}
                if np.abs(D1 - (U1 - g.velocity_field)).max() > 1e-12 * (1 + np.abs(U1).max() + np.abs(V1).max()):
                    return cases, {"oracle": "c10_velocity_mismatch", **info,
                                   "what": "velocity mismatch entering the feedback law != interpolated flow velocity - current marker velocity",
                                   "max_dev": float(np.abs(D1 - (U1 - g.velocity_field)).max())}
    return cases, None


def pipeline(seed, tier):
    """End-to-end action = reaction on real simulators and interactors: after a full interaction call the grid
    integral of the force density spread to the fluid plus the net force handed to the body vanishes; FlowForces adds
    exactly the transferred wrench to the body's external forces / torques (+=, not =)."""
    import sopht.simulator as sps
    from sopht.simulator.immersed_body import FlowForces

    cases = 0
    r = impl.rng(seed, "c08pipeline")
    cfgs = [("cyl2d", 2), ("rod2d", 2), ("sphere3d", 3), ("rod3d", 3)]
    for name, dim in cfgs:
        for reset in (True, False):
            with warnings.catch_warnings():
                warnings.simplefilter("ignore")
                sim, body, it, shape = make_interaction(name, dim, r, reset, axis_sign=(1.0 if reset else -1.0))
                body.velocity_collection[...] = r.normal(size=body.velocity_collection.shape) * 0.3
                body.omega_collection[...] = r.normal(size=body.omega_collection.shape) * 0.3
                if dim == 2:
                    body.velocity_collection[2] = 0; body.omega_collection[:2] = 0
                # a history: evaluate, advance the integral, evaluate again
                it(); it.time_step(dt=1e-2)
                sim.eul_grid_forcing_field[...] = 0.0
                it()
                it.compute_flow_forces_and_torques()
            cases += 1
            info = {"body": name, "dim": dim, "reset": reset, "grid": list(shape)}
            vol = float(sim.dx) ** dim
            fluid = sim.eul_grid_forcing_field.reshape(dim, -1).sum(axis=1) * vol
            bodyF = it.body_flow_forces.sum(axis=1)[:dim]
            scale = 1.0 + np.abs(it.lag_grid_forcing_field).sum()
            if np.abs(fluid + bodyF).max() > 1e-9 * scale:
                return cases, {"oracle": "c08", "what": "C08 grid integral of the force density applied to the fluid + net force on the body != 0 "
                               "after a full interaction (real simulator + interactor)", **info, "fluid": fluid.tolist(), "body": bodyF.tolist()}
            ff = FlowForces(it)
            pre_f = r.normal(size=body.external_forces.shape); pre_t = r.normal(size=body.external_torques.shape)
            body.external_forces[...] = pre_f; body.external_torques[...] = pre_t
            with warnings.catch_warnings():
                warnings.simplefilter("ignore")
                ff.apply_forces(body, time=0.0)
            if not (np.allclose(body.external_forces - pre_f, it.body_flow_forces, rtol=0, atol=1e-12 * scale)
                    and np.allclose(body.external_torques - pre_t, it.body_flow_torques, rtol=0, atol=1e-12 * scale)):
                return cases, {"oracle": "c08", "what": "C08 FlowForces.apply_forces does not ADD exactly the transferred wrench to the body's external forces / torques", **info}
    return cases, None


def run_c08(seed=0, tier="quick", aimed=None):
    res = run(seed, tier, aimed, which=("c08",))
    if res["ok"]:
        n, bad = pipeline(seed, tier)
        res["cases"] += n
        if bad is not None:
            res.update(ok=False, failing_input=bad)
    return res


def run_c09(seed=0, tier="quick", aimed=None):
    return run(seed, tier, aimed, which=("c09",))


def replay(fi):
    return run(seed=fi.get("seed", 0), tier="thorough")
