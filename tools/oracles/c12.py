"""C12 oracle: discrete vector-calculus identities on the real kernels with random fields."""
import numpy as np

import impl
from impl import spne


def run(seed=0, tier="quick", aimed=None):
    n = 3 if tier == "quick" else 30
    cases = 0
    samples = []
    for t in range(n):
        r = impl.rng(seed, "c12", t)
        nz, ny, nx = (int(v) for v in r.integers(6, 10, size=3))
        F = r.normal(size=(3, nz, ny, nx))
        p, q = float(r.uniform(0.5, 2)), float(r.uniform(0.5, 2))
        curl = r.normal(size=F.shape)   # output arrays start dirty: the kernel must overwrite its region
        spne.gen_curl_pyst_kernel_3d(real_t=np.float64, reset_ghost_zone=False)(curl=curl, field=F, prefactor=p)
        div = r.normal(size=(nz, ny, nx))   # output arrays start dirty: the kernel must overwrite its region
        spne.gen_divergence_pyst_kernel_3d(real_t=np.float64, reset_ghost_zone=False)(divergence=div, field=curl, inv_dx=q)
        I = (slice(2, -2),) * 3
        e = float(np.max(np.abs(div[I]))); cases += 1
        if e > 1e-11:
            return {"ok": False, "cases": cases, "samples": samples, "failing_input": {
                "oracle": "div_curl_3d", "grid": [nz, ny, nx], "field": impl.tolist(F), "p": p, "q": q, "max_div": e}}
        w = r.normal(size=F.shape); w0 = w.copy()
        spne.gen_update_vorticity_from_velocity_forcing_pyst_kernel_3d(real_t=np.float64)(
            vorticity_field=w, velocity_forcing_field=F, prefactor=p)
        J = (slice(None),) + (slice(1, -1),) * 3
        e = impl.relerr(w[J], (w0 + curl)[J]); cases += 1
        if e > 1e-12:
            return {"ok": False, "cases": cases, "samples": samples, "failing_input": {
                "oracle": "update_eq_curl_3d", "grid": [nz, ny, nx], "field": impl.tolist(F), "p": p, "err": e}}
        # penalised = forcing update of the difference
        U = r.normal(size=F.shape)
        w1 = w0.copy(); w2 = w0.copy()
        spne.gen_update_vorticity_from_penalised_velocity_pyst_kernel_3d(real_t=np.float64)(
            vorticity_field=w1, penalised_velocity_field=F, velocity_field=U, prefactor=p)
        spne.gen_update_vorticity_from_velocity_forcing_pyst_kernel_3d(real_t=np.float64)(
            vorticity_field=w2, velocity_forcing_field=F - U, prefactor=p)
        e = impl.relerr(w1[J], w2[J]); cases += 1
        if e > 1e-12:
            return {"ok": False, "cases": cases, "samples": samples, "failing_input": {
                "oracle": "penalised_eq_update_of_difference_3d", "grid": [nz, ny, nx], "err": e}}
        # 2D
        ny, nx = int(r.integers(7, 12)), int(r.integers(7, 12))
        psi = r.normal(size=(ny, nx))
        u = r.normal(size=(2, ny, nx))   # output arrays start dirty: the kernel must overwrite its region
        spne.gen_outplane_field_curl_pyst_kernel_2d(real_t=np.float64, reset_ghost_zone=False)(curl=u, field=psi, prefactor=p)
        div2 = (u[0][2:-2, 3:-1] - u[0][2:-2, 1:-3]) + (u[1][3:-1, 2:-2] - u[1][1:-3, 2:-2])
        e = float(np.max(np.abs(div2))); cases += 1
        if e > 1e-12:
            return {"ok": False, "cases": cases, "samples": samples, "failing_input": {
                "oracle": "2d_velocity_divfree", "grid": [ny, nx], "psi": impl.tolist(psi), "p": p, "max_div": e}}
        # the variant the 2D simulator uses for velocity recovery (boundary ring reset): same identity at every cell whose stencil
        # does not touch the ring (index >= 2 from every side), and the same values as the plain variant off the ring
        ur = r.normal(size=(2, ny, nx))
        spne.gen_outplane_field_curl_pyst_kernel_2d(real_t=np.float64, reset_ghost_zone=True)(curl=ur, field=psi, prefactor=p)
        div2r = (ur[0][2:-2, 3:-1] - ur[0][2:-2, 1:-3]) + (ur[1][3:-1, 2:-2] - ur[1][1:-3, 2:-2])
        e = max(float(np.max(np.abs(div2r))), float(np.max(np.abs(ur[:, 1:-1, 1:-1] - u[:, 1:-1, 1:-1])))); cases += 1
        if e > 1e-12:
            return {"ok": False, "cases": cases, "samples": samples, "failing_input": {
                "oracle": "2d_velocity_divfree[reset_ghost_zone]", "grid": [ny, nx], "psi": impl.tolist(psi), "p": p, "max_dev": e,
                "what": "recovered velocity (ghost-zone reset variant) not divergence-free off the ring, or different from the plain variant off the ring"}}
        cc = r.normal(size=(ny, nx))   # output arrays start dirty: the kernel must overwrite its region
        spne.gen_inplane_field_curl_pyst_kernel_2d(real_t=np.float64)(curl=cc, field=u, prefactor=q)
        wide = q * p * (4 * psi[2:-2, 2:-2] - psi[4:, 2:-2] - psi[:-4, 2:-2] - psi[2:-2, 4:] - psi[2:-2, :-4])
        e = impl.relerr(cc[2:-2, 2:-2], wide); cases += 1
        if e > 1e-12:
            return {"ok": False, "cases": cases, "samples": samples, "failing_input": {
                "oracle": "2d_curl_curl", "grid": [ny, nx], "psi": impl.tolist(psi), "p": p, "q": q, "err": e}}
        Fv = r.normal(size=(2, ny, nx))
        w = r.normal(size=(ny, nx)); w0 = w.copy()
        spne.gen_update_vorticity_from_velocity_forcing_pyst_kernel_2d(real_t=np.float64)(
            vorticity_field=w, velocity_forcing_field=Fv, prefactor=p)
        cc = r.normal(size=(ny, nx))   # output arrays start dirty: the kernel must overwrite its region
        spne.gen_inplane_field_curl_pyst_kernel_2d(real_t=np.float64)(curl=cc, field=Fv, prefactor=p)
        e = impl.relerr(w[1:-1, 1:-1], (w0 + cc)[1:-1, 1:-1]); cases += 1
        if e > 1e-12:
            return {"ok": False, "cases": cases, "samples": samples, "failing_input": {
                "oracle": "update_eq_curl_2d", "grid": [ny, nx], "err": e}}
        if len(samples) < 2:
            samples.append({"oracle": "c12_identities", "grid3d": [nz, ny, nx], "grid2d": [ny, nx]})
    # ---- the 3D simulator's divergence monitor: L2 norm of the centred divergence of the vorticity (ghost ring zero), and it is
    #      unchanged by a step's curl-type updates on a compactly supported state (vorticity stays divergence free)
    import warnings

    import ref as R
    import sopht.simulator as sps

    for t in range(1 if tier == "quick" else 4):
        r = impl.rng(seed, "c12monitor", t)
        shape = tuple(int(v) for v in r.integers(10, 14, size=3))
        with warnings.catch_warnings():
            warnings.simplefilter("ignore")
            sim = sps.UnboundedNavierStokesFlowSimulator3D(grid_size=shape, x_range=1.0, kinematic_viscosity=0.01, real_t=np.float64, with_forcing=True)
        A = np.zeros((3,) + shape); A[(slice(None),) + (slice(4, -4),) * 3] = r.normal(size=(3,) + tuple(n - 8 for n in shape))
        w = np.zeros((3,) + shape)
        w[(slice(None),) + (slice(1, -1),) * 3] = R.curl3(A)          # a discretely divergence-free, compactly supported vorticity
        sim.vorticity_field[...] = w + 0.0
        dx = float(sim.dx)
        dirty = r.normal(size=shape)
        sim.buffer_scalar_field[...] = dirty                           # the monitor must not depend on the scratch content
        got = float(sim.get_vorticity_divergence_l2_norm())
        div = np.zeros(shape); div[(slice(1, -1),) * 3] = R.div3(w) / (2 * dx)
        want = float(np.linalg.norm(div) * dx ** 1.5)
        cases += 1
        if abs(got - want) > 1e-10 * (1 + want) or got > 1e-10 * (1 + float(np.abs(w).max()) / dx):
            return {"ok": False, "cases": cases, "samples": samples, "failing_input": {
                "oracle": "divergence_monitor_3d", "grid": list(shape), "monitor": got, "reference": want,
                "what": "get_vorticity_divergence_l2_norm differs from the L2 norm of the centred divergence, or a discrete curl is not reported divergence-free"}}
        # a generic (not divergence-free) field: the monitor equals the reference norm
        w2 = np.zeros((3,) + shape); w2[(slice(None),) + (slice(3, -3),) * 3] = r.normal(size=(3,) + tuple(n - 6 for n in shape))
        sim.vorticity_field[...] = w2
        got = float(sim.get_vorticity_divergence_l2_norm())
        div = np.zeros(shape); div[(slice(1, -1),) * 3] = R.div3(w2) / (2 * dx)
        want = float(np.linalg.norm(div) * dx ** 1.5)
        cases += 1
        if abs(got - want) > 1e-10 * (1 + want):
            return {"ok": False, "cases": cases, "samples": samples, "failing_input": {
                "oracle": "divergence_monitor_3d", "grid": list(shape), "monitor": got, "reference": want,
                "what": "get_vorticity_divergence_l2_norm differs from the L2 norm of the centred divergence of the vorticity"}}
    return {"ok": True, "cases": cases, "failing_input": None, "samples": samples}


def replay(fi):
    return run(seed=fi.get("seed", 0), tier="thorough")
