"""C14 oracle on the implementation: two simulators, one fed with a state and the other with its image under a
grid symmetry g (axis permutation composed with mirrors; new grid = permuted grid, same dx), stepped once (and
twice) with g-transformed free stream; the results must agree up to rounding after transforming back.
Vorticity / stream function are pseudo-scalars (2D) / pseudo-vectors (3D); velocity, forcing, free stream are
vectors.  Non-square / non-cubic grids only; every element of the hyperoctahedral group in 2D (8) and a
generating + random sample in 3D (quick) or all 48 (thorough); every configuration class of C01."""
import itertools
import warnings

import numpy as np

import impl


def group(dim):
    out = []
    for perm in itertools.permutations(range(dim)):
        for flips in itertools.product([False, True], repeat=dim):
            out.append((perm, flips))
    return out


def perm_sign(p):
    s, p = 1, list(p)
    for i in range(len(p)):
        while p[i] != i:
            j = p[i]
            p[i], p[j] = p[j], p[i]
            s = -s
    return s


class G:
    """g acts on ARRAY axes of a dim-D scalar array: out.axis[k] = in.axis[P[k]], then flipped along the axes k
    with flips[k].  Coordinate c lives on array axis dim-1-c."""

    def __init__(self, dim, P, flips):
        self.dim, self.P, self.flips = dim, tuple(P), tuple(flips)
        self.det = perm_sign(P) * (-1) ** sum(flips)

    def scalar(self, a):
        lead = a.ndim - self.dim
        axes = tuple(range(lead)) + tuple(lead + p for p in self.P)
        out = np.transpose(a, axes)
        fl = tuple(lead + k for k in range(self.dim) if self.flips[k])
        return np.ascontiguousarray(np.flip(out, fl) if fl else out)

    def shape(self, shape):
        return tuple(shape[p] for p in self.P)

    def _comp(self, cn):
        """new coordinate cn <- (old coordinate, sign)"""
        k = self.dim - 1 - cn
        co = self.dim - 1 - self.P[k]
        return co, (-1.0 if self.flips[k] else 1.0)

    def vector(self, v):
        return np.array([self._comp(cn)[1] * self.scalar(v[self._comp(cn)[0]]) for cn in range(self.dim)])

    def vec_const(self, U):
        return np.array([self._comp(cn)[1] * U[self._comp(cn)[0]] for cn in range(self.dim)])

    def pseudo(self, w):
        if self.dim == 2:
            return self.det * self.scalar(w)
        return self.det * self.vector(w)

    def name(self):
        return f"array-axes<-{self.P} flips={tuple(int(f) for f in self.flips)}"


def _compact(r, shape, lead, margin):
    a = np.zeros(lead + shape)
    sl = (slice(None),) * len(lead) + tuple(slice(margin, n - margin) for n in shape)
    a[sl] = r.normal(size=a[sl].shape)
    return a


def _ns(dim, shape, dx, cfg, real_t):
    import sopht.simulator as sps

    common = dict(grid_size=shape, x_range=dx * shape[-1], kinematic_viscosity=cfg["nu"], real_t=real_t, with_forcing=cfg["forcing"],
                  with_free_stream_flow=cfg["fs"], flow_density=cfg["rho"], penalty_zone_width=cfg["w"], time=0.0)
    with warnings.catch_warnings():
        warnings.simplefilter("ignore")
        if dim == 2:
            return sps.UnboundedNavierStokesFlowSimulator2D(**common)
        kw = {}
        if cfg["filt"] is not None:
            kw = dict(filter_vorticity=True, filter_setting_dict={"order": cfg["filt"][0], "type": cfg["filt"][1]})
        return sps.UnboundedNavierStokesFlowSimulator3D(poisson_solver_type=cfg["solver"], **common, **kw)


def _step(sim, dt, U):
    with warnings.catch_warnings():
        warnings.simplefilter("ignore")
        if U is None:
            sim.time_step(dt=dt)
        else:
            sim.time_step(dt=dt, free_stream_velocity=U)


def run(seed=0, tier="quick", aimed=None):
    cases = 0
    samples = []
    dist = {}
    r0 = impl.rng(seed, "c14cfg")
    for dim in (2, 3):
        els = group(dim)
        filts = [None] if dim == 2 else [None, (1, "multiplicative"), (2, "convolution"), (3, "multiplicative")]
        solvers = ["-"] if dim == 2 else ["greens_function_convolution", "fast_diagonalisation"]
        cfgs = [dict(forcing=f, fs=fs, filt=fl, solver=sv, w=w) for f, fs, fl, sv, w in
                itertools.product([False, True], [False, True], filts, solvers, [0, 1, 3])]
        if tier == "quick":
            cfgs = [cfgs[i] for i in r0.permutation(len(cfgs))[: (6 if dim == 2 else 5)]]
            if dim == 3:
                cfgs.append(dict(forcing=True, fs=True, filt=None, solver="greens_function_convolution", w=0))
                # an odd filter order (the number of 1D sweeps, 3 * order, is odd): always present
                cfgs.append(dict(forcing=False, fs=True, filt=([1, 3][seed % 2], "multiplicative"), solver="greens_function_convolution", w=0))
        for ci, cfg in enumerate(cfgs):
            r = impl.rng(seed, "c14", dim, ci)
            if tier == "quick":
                if dim == 2:
                    gs = els
                else:
                    # generators (cyclic permutation, a transposition, each mirror) plus random elements
                    gens = [((1, 2, 0), (False,) * 3), ((0, 2, 1), (False,) * 3), ((1, 0, 2), (False,) * 3),
                            ((0, 1, 2), (True, False, False)), ((0, 1, 2), (False, True, False)), ((0, 1, 2), (False, False, True))]
                    gs = [gens[i] for i in r.permutation(len(gens))[:3]] + [els[i] for i in r.permutation(len(els))[:2]]
            else:
                gs = els
            real_t = np.float64 if (ci % 4 or tier == "quick" and ci % 2) else np.float32
            tol = 1e-9 if real_t is np.float64 else 5e-3
            base = 2 * cfg["w"] + 8
            while True:
                shape = tuple(int(v) for v in r.integers(base, base + 5, size=dim))
                if len(set(shape)) == dim:
                    break
            cfg = dict(cfg, nu=float(r.uniform(1e-3, 3e-2)), rho=float(r.uniform(0.5, 2.0)))
            dx = float(r.uniform(0.01, 0.05))
            lead = () if dim == 2 else (3,)
            margin = 4 + cfg["w"]
            w0 = _compact(r, shape, lead, margin)
            v0 = r.normal(size=(dim,) + shape)
            F0 = _compact(r, shape, (dim,), margin) if cfg["forcing"] else None
            U = r.normal(size=dim) if cfg["fs"] else None
            dts = [float(r.uniform(1e-4, 1e-3)) for _ in range(2)]
            simA = _ns(dim, shape, dx, cfg, real_t)
            simA.vorticity_field[...] = w0
            simA.velocity_field[...] = v0
            resA = []
            for dt in dts:
                if F0 is not None:
                    simA.eul_grid_forcing_field[...] = F0
                _step(simA, dt, U)
                resA.append((simA.vorticity_field.astype(np.float64).copy(), simA.velocity_field.astype(np.float64).copy()))
            label = {"dim": dim, "grid": list(shape), "dtype": real_t.__name__, **{k: str(v) for k, v in cfg.items()}}
            for P, flips in gs:
                g = G(dim, P, flips)
                simB = _ns(dim, g.shape(shape), dx, cfg, real_t)
                simB.vorticity_field[...] = g.pseudo(w0)
                simB.velocity_field[...] = g.vector(v0)
                key = "identity" if (tuple(P) == tuple(range(dim)) and not any(flips)) else ("mirror" if tuple(P) == tuple(range(dim)) else ("permutation" if not any(flips) else "mixed"))
                dist[key] = dist.get(key, 0) + 1
                for si, dt in enumerate(dts):
                    if F0 is not None:
                        simB.eul_grid_forcing_field[...] = g.vector(F0)
                    _step(simB, dt, None if U is None else g.vec_const(U))
                    cases += 1
                    wA, vA = resA[si]
                    for nm, a, b in (("vorticity", g.pseudo(wA), simB.vorticity_field.astype(np.float64)),
                                     ("velocity", g.vector(vA), simB.velocity_field.astype(np.float64))):
                        scale = max(float(np.max(np.abs(a))), 1e-30)
                        dev = float(np.max(np.abs(a - b))) / scale if np.all(np.isfinite(b)) else float("inf")
                        if not dev <= tol:
                            return {"ok": False, "cases": cases, "samples": samples, "failing_input": {
                                "oracle": "c14_equivariance", "what": f"{nm} after step {si + 1} of the transformed run differs from the transformed {nm} of the original run",
                                "group_element": g.name(), "max_rel_dev": dev, "tolerance": tol, **label}}
            if len(samples) < 3:
                samples.append({"oracle": "c14_equivariance", **label, "group_elements": len(gs), "steps": 2})
    # passive transport
    import sopht.simulator as sps

    for dim, ft in ((2, "scalar"), (3, "scalar"), (3, "vector")):
        r = impl.rng(seed, "c14passive", dim, ft)
        while True:
            shape = tuple(int(v) for v in r.integers(8, 13, size=dim))
            if len(set(shape)) == dim:
                break
        dx = 0.03
        nu = float(r.uniform(1e-3, 3e-2))
        lead = (dim,) if ft == "vector" else ()
        f0 = _compact(r, shape, lead, 3)
        v0 = r.normal(size=(dim,) + shape)
        dt = 5e-4

        def mk(shp):
            return sps.PassiveTransportFlowSimulator(kinematic_viscosity=nu, grid_dim=dim, grid_size=shp, x_range=dx * shp[-1],
                                                     real_t=np.float64, field_type=ft, time=0.0)

        simA = mk(shape)
        simA.primary_field[...] = f0
        simA.velocity_field[...] = v0
        simA.time_step(dt=dt)
        els = group(dim)
        gs = els if tier != "quick" or dim == 2 else [els[i] for i in r.permutation(len(els))[:6]]
        for P, flips in gs:
            g = G(dim, P, flips)
            tf = g.vector if ft == "vector" else g.scalar
            simB = mk(g.shape(shape))
            simB.primary_field[...] = tf(f0)
            simB.velocity_field[...] = g.vector(v0)
            simB.time_step(dt=dt)
            cases += 1
            a, b = tf(simA.primary_field), simB.primary_field
            dev = float(np.max(np.abs(a - b))) / max(float(np.max(np.abs(a))), 1e-30)
            if not dev <= 1e-10:
                return {"ok": False, "cases": cases, "samples": samples, "failing_input": {
                    "oracle": "c14_equivariance_passive", "dim": dim, "field_type": ft, "grid": list(shape), "group_element": g.name(),
                    "max_rel_dev": dev}}
    return {"ok": True, "cases": cases, "failing_input": None, "samples": samples, "distribution": dist}


def replay(fi):
    return run(seed=fi.get("seed", 0), tier="thorough")
