"""C15 oracle on the real code: (a) every captured kernel, executed cell by cell in place in two different
serial orders, gives identical arrays (detects a written field read off-centre); (b) in real simulator steps no
call passes overlapping memory as a written array and as another, differently indexed or off-centre-read array;
(c) the numba communicators give bit-identical interpolation and spreading with 1 and with all numba threads (the source-level
obligation "no parallel=True / prange" is corr/serial.py); (d) thread sweep of the Poisson solvers."""
import inspect
import itertools
import warnings

import numpy as np
import sympy as sp

import impl
import shim


def _compile(k):
    import pystencils as ps

    Access = ps.Field.Access
    fns = []
    for lhs, rhs in k.assignments:
        accs = sorted(rhs.atoms(Access), key=lambda a: (a.field.name, tuple(int(o) for o in a.offsets)))
        dummies = [sp.Dummy() for _ in accs]
        f = shim.lambdify_exact(dummies + list(k.scalars), rhs.xreplace(dict(zip(accs, dummies))), modules="math")
        fns.append((lhs.field.name, [(a.field.name, tuple(int(o) for o in a.offsets)) for a in accs], f))
    return fns


def _percell(k, fns, arrays, scal, order):
    """execute kernel `k` sequentially, one cell at a time, in the given cell order, reading the LIVE arrays
    (the same compiled per-cell function is used for every order, so any difference is due to the order)"""
    svals = [scal[s.name] for s in k.scalars]
    for cell in order:
        for wname, accs, f in fns:
            vals = [float(arrays[fn][tuple(c + o for c, o in zip(cell, off))]) for fn, off in accs]
            arrays[wname][cell] = f(*vals, *svals)


def _kernels():
    import capture

    ks, _, _ = capture.capture_all()
    return [rec["kernel"] for rec in ks.values()]


def run(seed=0, tier="quick", aimed=None):
    cases = 0
    samples = []
    r = impl.rng(seed, "c15")
    # ---- (a) per kernel
    for k in _kernels():
        if any(isinstance(s, sp.Symbol) and s.name.endswith(("_start", "_end")) or s.name in ("dx", "blend_width") for s in k.scalars):
            scal = {s.name: float(r.uniform(0.5, 1.5)) for s in k.scalars}
        else:
            scal = {s.name: float(r.normal()) for s in k.scalars}
        shape = tuple(int(v) for v in r.integers(2 * k.ghost + 2, 2 * k.ghost + 4, size=k.ndim))
        if k.slice is not None:
            shape = tuple(8 for _ in range(k.ndim))
        base = {f: r.normal(size=shape) for f in k.fields}
        reg = k.region(shape)
        cells = list(itertools.product(*[range(lo, hi) for lo, hi in reg]))
        if not cells:
            continue
        a1 = {f: a.copy() for f, a in base.items()}
        a2 = {f: a.copy() for f, a in base.items()}
        fns = _compile(k)
        _percell(k, fns, a1, scal, cells)
        perm = [cells[i] for i in r.permutation(len(cells))]
        _percell(k, fns, a2, scal, perm)
        cases += 1
        for f in k.fields:
            if not np.array_equal(a1[f], a2[f], equal_nan=True):
                idx = np.argwhere(a1[f] != a2[f])[0].tolist()
                return {"ok": False, "cases": cases, "samples": samples, "failing_input": {
                    "oracle": "iteration_order", "kernel": k.qualname, "field": f, "shape": list(shape), "cell": idx,
                    "orders": "row-major vs random permutation", "inputs": {n: impl.tolist(a) for n, a in base.items()},
                    "scalars": scal, "row_major": float(a1[f][tuple(idx)]), "permuted": float(a2[f][tuple(idx)])}}
    samples.append({"oracle": "iteration_order", "kernels_checked": cases})
    # ---- (b) call sites of real steps
    from corr import harness
    import sopht.simulator as sps

    sims = []
    for forcing, fs in ((True, True), (False, False)):
        sims.append(("ns2d", sps.UnboundedNavierStokesFlowSimulator2D(grid_size=(10, 12), x_range=1.0, kinematic_viscosity=0.01,
                     real_t=np.float64, with_forcing=forcing, with_free_stream_flow=fs)))
    for ftype, solver in itertools.product(("multiplicative", "convolution"), ("greens_function_convolution", "fast_diagonalisation")):
        sims.append((f"ns3d[{ftype},{solver}]", sps.UnboundedNavierStokesFlowSimulator3D(
            grid_size=(8, 10, 12), x_range=1.0, kinematic_viscosity=0.01, real_t=np.float64, with_forcing=True,
            with_free_stream_flow=True, filter_vorticity=True, filter_setting_dict={"order": 2, "type": ftype},
            poisson_solver_type=solver)))
    sims.append(("passive2d", sps.PassiveTransportFlowSimulator(kinematic_viscosity=0.01, grid_dim=2, grid_size=(10, 12), x_range=1.0, real_t=np.float64)))
    sims.append(("passive3d", sps.PassiveTransportFlowSimulator(kinematic_viscosity=0.01, grid_dim=3, grid_size=(8, 10, 12), x_range=1.0, real_t=np.float64)))
    sims.append(("passive3d-vec", sps.PassiveTransportFlowSimulator(kinematic_viscosity=0.01, grid_dim=3, grid_size=(8, 10, 12), x_range=1.0, real_t=np.float64, field_type="vector")))
    for name, sim in sims:
        tr = harness.Tracer({}, sim.grid_dim)
        shim.TRACERS.append(tr)
        try:
            sim.time_step(dt=1e-3)
        finally:
            shim.TRACERS.remove(tr)
        cases += len(tr.lines)
        for ov in tr.overlaps:
            if not (ov["identical"] and ov["other_read_at_centre_only"]):
                return {"ok": False, "cases": cases, "samples": samples, "failing_input": {
                    "oracle": "callsite_alias", "simulator": name, **ov}}
        samples.append({"oracle": "callsite_alias", "simulator": name, "kernel_calls": len(tr.lines),
                        "aliasing_calls": len(tr.overlaps)})
    # ---- (c) the numba communicators under a thread sweep (the source-level obligation is corr/serial.py)
    import sopht.numeric.immersed_boundary_ops as ibo

    # ---- (c') the communicators executed with 1 and with many numba threads: interpolation and spreading (scalar and vector,
    #           small and large marker sets with overlapping windows, two successive spreads) must be bit-identical
    import numba

    nmax = int(numba.config.NUMBA_NUM_THREADS)
    marker_counts = (48, 2500, 6000) if tier == "quick" else (48, 700, 2500, 6000, 20000)
    comm_sweep = {"runs": 0, "threads": [1, nmax]}
    try:
        for (cls, dim), nlag, ncomp in itertools.product(((ibo.EulerianLagrangianGridCommunicator2D, 2), (ibo.EulerianLagrangianGridCommunicator3D, 3)),
                                                         marker_counts, ("scalar", "vector")):
            if nmax < 2:
                break
            rr = impl.rng(seed, "c15comm", dim, nlag, ncomp)
            shape = (40, 48) if dim == 2 else (20, 24, 28)
            dx = 1.0 / shape[-1]
            ncmp = 1 if ncomp == "scalar" else dim
            with warnings.catch_warnings():
                warnings.simplefilter("ignore")
                comm = cls(dx=dx, eul_grid_coord_shift=dx / 2, num_lag_nodes=nlag, interp_kernel_width=2, real_t=np.float64, n_components=ncmp)
            # markers on a small blob in the middle of the grid, in random storage order: every window overlaps many others
            centre = np.array([0.5 * shape[dim - 1 - a] * dx for a in range(dim)])
            pos = centre.reshape(dim, 1) + rr.normal(size=(dim, nlag)) * 2.5 * dx
            pos = np.clip(pos, 3 * dx, (np.array([shape[dim - 1 - a] for a in range(dim)]).reshape(dim, 1) - 3) * dx)
            eul = rr.normal(size=shape if ncmp == 1 else (dim,) + shape)
            lagF = rr.normal(size=nlag if ncmp == 1 else (dim, nlag))
            outs = {}
            for nt in (1, nmax):
                numba.set_num_threads(nt)
                idx = np.zeros((dim, nlag), dtype=int)
                sup = np.zeros((dim,) + (4,) * dim + (nlag,))
                w = np.zeros((4,) * dim + (nlag,))
                comm.local_eulerian_grid_support_of_lagrangian_grid_kernel(sup, idx, pos)
                comm.interpolation_weights_kernel(w, sup)
                lag_out = np.zeros_like(lagF)
                comm.eulerian_to_lagrangian_grid_interpolation_kernel(lag_out, eul, w, idx)
                acc = np.zeros_like(eul)
                for _ in range(2):
                    comm.lagrangian_to_eulerian_grid_interpolation_kernel(acc, lagF, w, idx)
                outs[nt] = (lag_out, acc)
                comm_sweep["runs"] += 1
                cases += 1
            for name, a, b in (("interpolation", outs[1][0], outs[nmax][0]), ("spreading", outs[1][1], outs[nmax][1])):
                if not np.array_equal(a, b):
                    return {"ok": False, "cases": cases, "samples": samples, "failing_input": {
                        "oracle": "c15_communicator_thread_sweep", "communicator": cls.__name__, "field": ncomp, "markers": nlag, "grid": list(shape),
                        "operation": name, "threads": [1, nmax], "max_abs_dev": float(np.max(np.abs(a - b))),
                        "what": f"{name} of {nlag} markers differs bitwise between 1 and {nmax} numba threads"}}
    finally:
        numba.set_num_threads(nmax)
    samples.append({"oracle": "c15_communicator_thread_sweep", **comm_sweep})
    # ---- (c'') the stable time step (a grid-wide reduction) for num_threads = 1 ... 5 on grids whose cell count is not a multiple of the
    #           thread count, with the velocity maximum in the last cells of the flattened array, in the first ones, and spread out
    import sopht.simulator as sps

    for ci, (dim, cls) in enumerate(((2, "passive"), (2, "ns"), (3, "passive"), (3, "ns"))):
        rr = impl.rng(seed, "c15dt", ci)
        shape = (9, 7) if dim == 2 else (5, 7, 3)
        for pattern in ("last_cell", "first_cell", "random"):
            vel = np.zeros((dim,) + shape)
            if pattern == "last_cell":
                vel[(slice(None),) + tuple(n - 1 for n in shape)] = rr.uniform(1, 3, size=dim)
            elif pattern == "first_cell":
                vel[(slice(None),) + (0,) * dim] = rr.uniform(1, 3, size=dim)
            else:
                vel[...] = rr.normal(size=vel.shape)
            dts = {}
            for nt in (1, 2, 3, 4, 5):
                with warnings.catch_warnings():
                    warnings.simplefilter("ignore")
                    if cls == "passive":
                        sim = sps.PassiveTransportFlowSimulator(kinematic_viscosity=1e-4, grid_dim=dim, grid_size=shape, x_range=1.0, real_t=np.float64, num_threads=nt)
                    elif dim == 2:
                        sim = sps.UnboundedNavierStokesFlowSimulator2D(grid_size=shape, x_range=1.0, kinematic_viscosity=1e-4, real_t=np.float64, num_threads=nt)
                    else:
                        sim = sps.UnboundedNavierStokesFlowSimulator3D(grid_size=shape, x_range=1.0, kinematic_viscosity=1e-4, real_t=np.float64, num_threads=nt)
                    sim.velocity_field[...] = vel
                    dts[nt] = float(sim.compute_stable_timestep())
                cases += 1
            if len(set(dts.values())) != 1:
                return {"ok": False, "cases": cases, "samples": samples, "failing_input": {
                    "oracle": "c15_stable_timestep_thread_sweep", "simulator": f"{cls}{dim}d", "grid": list(shape), "velocity": pattern,
                    "dt_by_num_threads": dts, "what": "compute_stable_timestep depends on num_threads"}}
    samples.append({"oracle": "c15_stable_timestep_thread_sweep", "num_threads": [1, 2, 3, 4, 5]})
    # ---- (d) thread sweep of the Poisson solvers on the real implementation (run LAST: a listed known finding must not
    #          mask another violation).  The stencil kernels are executed here by a numpy interpreter (no OpenMP back end in this
    #          sandbox), so the only threaded component is pyFFTW; a difference is attributed to its call site by comparing the
    #          buffers right after each plan call.
    import sopht.numeric.eulerian_grid_ops as spne

    r = impl.rng(seed, "c15threads")
    shapes2 = [(16, 16), (24, 20), (20, 24), (33, 47), (32, 48)] + ([(64, 64), (40, 56), (48, 30)] if tier != "quick" else [])
    shapes3 = [(8, 8, 8), (12, 10, 9)] + ([(16, 16, 16), (10, 14, 12)] if tier != "quick" else [])
    threads = (2, 4) if tier == "quick" else (2, 3, 4, 7, 8)
    sweep = {"solves": 0, "bitwise_different": 0}
    first_diff = None
    for dim, shapes in ((2, shapes2), (3, shapes3)):
        for shape in shapes:
            rhs = r.normal(size=shape)
            ref = None
            for nt in (1,) + threads:
                with warnings.catch_warnings():
                    warnings.simplefilter("ignore")
                    if dim == 2:
                        ps = spne.UnboundedPoissonSolverPYFFTW2D(grid_size_y=shape[0], grid_size_x=shape[1], x_range=1.0, real_t=np.float64, num_threads=nt)
                    else:
                        ps = spne.UnboundedPoissonSolverPYFFTW3D(grid_size_z=shape[0], grid_size_y=shape[1], grid_size_x=shape[2], x_range=1.0, real_t=np.float64, num_threads=nt)
                snaps = {}
                o_rfft, o_irfft = ps.rfft, ps.irfft

                def rfft(*a, _o=o_rfft, _ps=ps, _s=snaps, **kw):
                    _s["pre_rfft"] = _ps.domain_doubled_buffer.copy(); out = _o(*a, **kw); _s["post_rfft"] = _ps.domain_doubled_fourier_buffer.copy(); return out

                def irfft(*a, _o=o_irfft, _ps=ps, _s=snaps, **kw):
                    _s["pre_irfft"] = _ps.convolution_buffer.copy(); out = _o(*a, **kw); _s["post_irfft"] = _ps.domain_doubled_buffer.copy(); return out

                ps.rfft, ps.irfft = rfft, irfft
                sol = np.zeros(shape)
                ps.solve(solution_field=sol, rhs_field=rhs.copy())
                sweep["solves"] += 1
                cases += 1
                if ref is None:
                    ref = (sol, snaps)
                    continue
                if np.array_equal(sol, ref[0]):
                    continue
                sweep["bitwise_different"] += 1
                if not np.array_equal(snaps["pre_rfft"], ref[1]["pre_rfft"]):
                    site = "kernel_before_rfft"
                elif not np.array_equal(snaps["post_rfft"], ref[1]["post_rfft"]):
                    site = "pyfftw_plan"
                elif not np.array_equal(snaps["pre_irfft"], ref[1]["pre_irfft"]):
                    site = "kernel_between_ffts"
                elif not np.array_equal(snaps["post_irfft"], ref[1]["post_irfft"]):
                    site = "pyfftw_plan"
                else:
                    site = "kernel_after_irfft"
                fi = {"oracle": "c15_thread_sweep", "call_site": site, "solver": f"UnboundedPoissonSolverPYFFTW{dim}D", "grid": list(shape),
                      "threads": [1, nt], "max_abs_dev": float(np.max(np.abs(sol - ref[0]))),
                      "what": f"solve differs bitwise between num_threads=1 and {nt}; first differing buffer right after: {site}"}
                if site != "pyfftw_plan":
                    return {"ok": False, "cases": cases, "samples": samples, "failing_input": fi, "thread_sweep": sweep}
                first_diff = first_diff or fi
    samples.append({"oracle": "c15_thread_sweep", **sweep})
    if first_diff is not None:
        return {"ok": False, "cases": cases, "samples": samples, "failing_input": first_diff, "thread_sweep": sweep}
    return {"ok": True, "cases": cases, "failing_input": None, "samples": samples, "thread_sweep": sweep}


def replay(fi):
    return run(seed=fi.get("seed", 0), tier="thorough")
