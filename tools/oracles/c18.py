"""C18 oracle on the implementation: (a) no hidden state — poisoning every scratch / work buffer before each
step leaves the public trajectory bit-identical; (b) checkpoint at step k through the IO layer, fresh objects,
load, continue == uninterrupted run, for every k; (c) the restart helper on generated directory contents."""
import os
import shutil
import tempfile
import warnings

import numpy as np

import impl

import sopht.simulator as sps
import sopht.utils as spu


class Body:
    """a rigid 2D/3D 'cylinder' whose state the harness integrates itself (PyElastica's own state files are external)"""

    def __init__(self, dim, centre, radius, n):
        import elastica as ea

        self.dim = dim
        start = np.zeros(3)
        start[:dim] = centre[:dim]
        if dim == 3:
            start[2] = centre[2]
        self.cyl = ea.Cylinder(start=start - np.array([0, 0, 0.05]), direction=np.array([0.0, 0, 1.0]), normal=np.array([1.0, 0, 0]),
                               base_length=0.1, base_radius=radius, density=1e3)
        self.n = n

    def state(self):
        c = self.cyl
        return {"pos": c.position_collection.copy(), "vel": c.velocity_collection.copy(), "omega": c.omega_collection.copy(),
                "Q": c.director_collection.copy()}

    def set_state(self, s):
        c = self.cyl
        c.position_collection[...] = s["pos"]; c.velocity_collection[...] = s["vel"]
        c.omega_collection[...] = s["omega"]; c.director_collection[...] = s["Q"]

    def advance(self, dt, force, stepno):
        c = self.cyl
        c.velocity_collection[:2, 0] += dt * (force[:2, 0] * 1e-3 + np.array([0.3 * np.cos(stepno), 0.2 * np.sin(stepno)]))
        c.position_collection[:2, 0] += dt * c.velocity_collection[:2, 0]
        c.omega_collection[2, 0] += dt * 0.5


def build(cfg):
    dim, shape, real_t = cfg["dim"], cfg["shape"], cfg["real_t"]
    with warnings.catch_warnings():
        warnings.simplefilter("ignore")
        if dim == 2:
            sim = sps.UnboundedNavierStokesFlowSimulator2D(grid_size=shape, x_range=1.0, kinematic_viscosity=cfg["nu"], real_t=real_t,
                                                           with_forcing=True, with_free_stream_flow=True, penalty_zone_width=cfg["width"])
        else:
            sim = sps.UnboundedNavierStokesFlowSimulator3D(grid_size=shape, x_range=1.0, kinematic_viscosity=cfg["nu"], real_t=real_t,
                                                           with_forcing=True, with_free_stream_flow=True, penalty_zone_width=cfg["width"],
                                                           filter_vorticity=cfg["filter"] is not None,
                                                           filter_setting_dict={"order": cfg["filter"][0], "type": cfg["filter"][1]} if cfg["filter"] else None,
                                                           poisson_solver_type=cfg["solver"])
    centre = np.array([0.45 * sim.x_range, 0.5 * sim.y_range, 0.0])
    body = Body(2, centre, 0.12 * min(sim.x_range, sim.y_range), 0)
    from sopht.simulator.immersed_body import CircularCylinderForcingGrid, RigidBodyFlowInteraction

    if dim == 2:
        it = RigidBodyFlowInteraction(rigid_body=body.cyl, eul_grid_forcing_field=sim.eul_grid_forcing_field,
                                      eul_grid_velocity_field=sim.velocity_field, virtual_boundary_stiffness_coeff=-5e2,
                                      virtual_boundary_damping_coeff=-1e1, dx=sim.dx, grid_dim=2, real_t=real_t,
                                      forcing_grid_cls=CircularCylinderForcingGrid, num_forcing_points=12)
    else:
        it = None
    return sim, body, it


def scratch_arrays(sim, it):
    out = [sim.buffer_scalar_field, sim.stream_func_field]
    if sim.grid_dim == 3:
        out.append(sim.buffer_vector_field)
    ps = sim._unbounded_poisson_solver
    for n in ("domain_doubled_buffer", "domain_doubled_fourier_buffer", "convolution_buffer", "spectral_field_buffer"):
        if hasattr(ps, n):
            out.append(getattr(ps, n))
    if it is not None:
        out += [it.lag_grid_flow_velocity_field, it.local_eul_grid_support_of_lag_grid, it.interp_weights, it.lag_grid_forcing_field]
    return out


def one_step(sim, body, it, dt, U, stepno, poison=False):
    if poison:
        for a in scratch_arrays(sim, it):
            a[...] = np.nan
        if it is not None:
            it.nearest_eul_grid_index_to_lag_grid[...] = 0
    force = np.zeros((3, 1))
    if it is not None:
        it()
        it.compute_flow_forces_and_torques()
        force = it.body_flow_forces.copy()
        body.advance(dt, force, stepno)
    with warnings.catch_warnings():
        warnings.simplefilter("ignore")
        sim.time_step(dt=dt, free_stream_velocity=U)
    if it is not None:
        it.time_step(dt)


def public_state(sim, body, it):
    s = {"vorticity": sim.vorticity_field.copy(), "velocity": sim.velocity_field.copy(), "time": np.array([sim.time])}
    if it is not None:
        s["position_mismatch"] = it.lag_grid_position_mismatch_field.copy()
        s["velocity_mismatch"] = it.lag_grid_velocity_mismatch_field.copy()
        s["it_time"] = np.array([it.time])
        for k, v in body.state().items():
            s["body_" + k] = v
    return s


def init_state(sim, r):
    sl = (slice(3, -3),) * sim.grid_dim
    if sim.grid_dim == 2:
        sim.vorticity_field[sl] = r.normal(size=sim.vorticity_field[sl].shape)
    else:
        sim.vorticity_field[(slice(None),) + sl] = r.normal(size=sim.vorticity_field[(slice(None),) + sl].shape)


def make_ios(sim, it, origin_shift=0.0):
    dim = sim.grid_dim
    io = spu.IO(dim=dim, real_dtype=sim.real_t)
    io.define_eulerian_grid(origin=np.array([float(sim.dx) / 2 + origin_shift] * dim), dx=np.array([float(sim.dx)] * dim), grid_size=np.array(sim.grid_size))
    io.add_as_eulerian_fields_for_io(vorticity=sim.vorticity_field, velocity=sim.velocity_field)
    fio = None
    if it is not None:
        fio = spu.IO(dim=dim, real_dtype=sim.real_t)
        fio.add_as_lagrangian_fields_for_io(lagrangian_grid=it.forcing_grid.position_field, lagrangian_grid_name="forcing",
                                            position_mismatch=it.lag_grid_position_mismatch_field,
                                            velocity_mismatch=it.lag_grid_velocity_mismatch_field)
    return io, fio


def run(seed=0, tier="quick", aimed=None):
    cases = 0
    samples = []
    cfgs = [{"dim": 2, "shape": (20, 14), "real_t": np.float64, "nu": 0.01, "width": 2, "filter": None, "solver": None},
            {"dim": 2, "shape": (14, 20), "real_t": np.float64, "nu": 0.02, "width": 1, "filter": None, "solver": None},
            {"dim": 3, "shape": (8, 10, 12), "real_t": np.float64, "nu": 0.01, "width": 1, "filter": (2, "multiplicative"), "solver": "greens_function_convolution"},
            {"dim": 3, "shape": (10, 8, 9), "real_t": np.float64, "nu": 0.01, "width": 2, "filter": (1, "convolution"), "solver": "fast_diagonalisation"}]
    if tier != "quick":
        cfgs += [{"dim": 2, "shape": (16, 16), "real_t": np.float32, "nu": 0.01, "width": 3, "filter": None, "solver": None},
                 {"dim": 3, "shape": (9, 9, 9), "real_t": np.float64, "nu": 0.01, "width": 0, "filter": None, "solver": "greens_function_convolution"}]
    nsteps = 5 if tier == "quick" else 8
    tmp = tempfile.mkdtemp(prefix="c18", dir=os.path.join(os.path.dirname(os.path.dirname(os.path.abspath(__file__))), "..", ".cache"))
    try:
        for ci, cfg in enumerate(cfgs):
            r = impl.rng(seed, "c18", ci)
            dts = [float(x) for x in r.uniform(1e-3, 4e-3, size=nsteps)]
            U = r.normal(size=cfg["dim"]) * 0.5
            label = {k: str(v) for k, v in cfg.items()}
            # reference run
            sim, body, it = build(cfg)
            init_state(sim, impl.rng(seed, "c18init", ci))
            traj = []
            for s in range(nsteps):
                traj.append(public_state(sim, body, it))
                one_step(sim, body, it, dts[s], U, s)
            final = public_state(sim, body, it)
            # (a) poisoned scratch
            sim2, body2, it2 = build(cfg)
            init_state(sim2, impl.rng(seed, "c18init", ci))
            try:
                for s in range(nsteps):
                    one_step(sim2, body2, it2, dts[s], U, s, poison=True)
            except Exception as e:  # noqa: BLE001  (NaN from a scratch buffer reached the public state and broke the coupling)
                return {"ok": False, "cases": cases, "samples": samples, "failing_input": {
                    "oracle": "c18_hidden_state", "what": f"with NaN-poisoned scratch buffers the run fails at step {s}: {type(e).__name__}: {str(e)[:120]} "
                    "(the unpoisoned run is fine): scratch contents reach the public state", **label}}
            fin2 = public_state(sim2, body2, it2)
            cases += 1
            for k in final:
                if not np.array_equal(final[k], fin2[k], equal_nan=False):
                    return {"ok": False, "cases": cases, "samples": samples, "failing_input": {
                        "oracle": "c18_hidden_state", "what": f"public field {k} depends on the prior contents of scratch buffers", **label,
                        "max_dev": float(np.nanmax(np.abs(final[k] - fin2[k]))) if np.isfinite(fin2[k]).any() else "nan"}}
            # (b) resume from every checkpoint index k
            ks = range(nsteps) if tier != "quick" else [0, 1, nsteps - 2]
            for k in ks:
                simA, bodyA, itA = build(cfg)
                init_state(simA, impl.rng(seed, "c18init", ci))
                for s in range(k):
                    one_step(simA, bodyA, itA, dts[s], U, s)
                io, fio = make_ios(simA, itA)
                f1 = os.path.join(tmp, f"sopht_{ci}_{k}.h5"); f2 = os.path.join(tmp, f"forcing_{ci}_{k}.h5")
                io.save(f1, time=simA.time)
                if fio is not None:
                    itA.forcing_grid.compute_lag_grid_position_field()
                    fio.save(f2, time=simA.time)
                bstate = bodyA.state()
                simB, bodyB, itB = build(cfg)
                ioB, fioB = make_ios(simB, itB)
                t = ioB.load(f1)
                simB.time = float(t)
                if fioB is not None:
                    fioB.load(f2)
                    itB.time = float(t)
                bodyB.set_state(bstate)
                for s in range(k, nsteps):
                    one_step(simB, bodyB, itB, dts[s], U, s)
                finB = public_state(simB, bodyB, itB)
                cases += 1
                for name in final:
                    a, b = final[name], finB[name]
                    scale = max(1.0, float(np.max(np.abs(a))))
                    if not np.all(np.abs(a - b) <= 1e-11 * scale):
                        return {"ok": False, "cases": cases, "samples": samples, "failing_input": {
                            "oracle": "c18_resume", "what": f"resuming from the checkpoint written after step {k} gives a different {name}",
                            **label, "checkpoint_step": k, "max_rel_dev": float(np.max(np.abs(a - b)) / scale)}}
            if len(samples) < 2:
                samples.append({"oracle": "c18", **label, "steps": nsteps, "checkpoints": list(ks)})
        return {"ok": True, "cases": cases, "failing_input": None, "samples": samples}
    finally:
        shutil.rmtree(tmp, ignore_errors=True)


def replay(fi):
    return run(seed=fi.get("seed", 0), tier="thorough")
