"""C19 oracle on the real implementation: the property's observable statements evaluated directly."""
import itertools

import numpy as np

import impl
import ref as R
from impl import spne


def _fail(cases, samples, **kw):
    return {"ok": False, "cases": cases, "samples": samples, "failing_input": kw}


def run(seed=0, tier="quick", aimed=None):
    n = 2 if tier == "quick" else 10
    cases = 0
    samples = []
    for t in range(n):
        r = impl.rng(seed, "c19", t)
        # ---------------- Brinkmann, Eulerian 2D/3D and fixed value
        for dim in (2, 3):
            shape = tuple(int(v) for v in r.integers(4, 8, size=dim))
            u, ub = r.normal(size=shape), r.normal(size=shape)
            chi = r.uniform(0, 1, size=shape); chi[(0,) * dim] = 0.0
            lam = float(10 ** r.uniform(-2, 6))
            out = r.normal(size=shape)   # output arrays start dirty
            getattr(spne, f"gen_brinkmann_penalise_pyst_kernel_{dim}d")(real_t=np.float64)(
                penalised_field=out, penalty_factor=lam, char_field=chi, penalty_field=ub, field=u)
            cases += 1
            lo, hi = np.minimum(u, ub), np.maximum(u, ub)
            tol = 1e-12 * (1 + np.abs(u) + np.abs(ub))
            if np.any(out < lo - tol) or np.any(out > hi + tol):
                return _fail(cases, samples, oracle="brinkmann_convex", dim=dim, lam=lam, u=impl.tolist(u), ub=impl.tolist(ub), chi=impl.tolist(chi))
            if out[(0,) * dim] != u[(0,) * dim]:
                return _fail(cases, samples, oracle="brinkmann_identity_where_chi_zero", dim=dim, lam=lam)
            if np.any(np.abs(out - ub) > np.abs(u - ub) / (1 + lam * chi) * (1 + 1e-9) + 1e-13):
                return _fail(cases, samples, oracle="brinkmann_contraction", dim=dim, lam=lam, u=impl.tolist(u), ub=impl.tolist(ub), chi=impl.tolist(chi))
        # Lagrangian variant
        from sopht.numeric.immersed_boundary_ops.experimental.BrinkmannBoundaryForcing import BrinkmannBoundaryForcing as BBF

        uf, ubd = r.normal(size=(2, 9)), r.normal(size=(2, 9))
        c, dt = float(10 ** r.uniform(-1, 5)), float(10 ** r.uniform(-4, -1))
        o = np.zeros_like(uf)
        BBF.brinkmann_penalise_lag_grid_velocity_field(o, uf, ubd, c, dt)
        cases += 1
        if impl.relerr(o, (uf + c * dt * ubd) / (1 + c * dt)) > 1e-12:
            return _fail(cases, samples, oracle="brinkmann_lagrangian", c=c, dt=dt, flow=impl.tolist(uf), body=impl.tolist(ubd), got=impl.tolist(o))
        # ---------------- characteristic function
        for dim in (2, 3):
            eps = float(r.uniform(0.05, 0.7))
            phi = np.sort(np.concatenate([r.uniform(-3 * eps, 3 * eps, size=60), [eps, -eps, 0.0, np.nextafter(eps, 1), np.nextafter(-eps, -1)]]))
            shape = (5, 13) if dim == 2 else (1, 5, 13)
            phi_a = phi.reshape(shape)
            for real_t, tol in ((np.float64, 1e-12), (np.float32, 1e-6)):
                out = r.normal(size=shape).astype(real_t)   # output arrays start dirty
                gen = getattr(spne, f"gen_char_func_from_level_set_via_sine_heaviside_pyst_kernel_{dim}d")
                gen(blend_width=eps, real_t=real_t)(char_func_field=out, level_set_field=phi_a.astype(real_t))
                Hv = out.ravel().astype(np.float64)
                ph = phi_a.astype(real_t).ravel().astype(np.float64)
                cases += 1
                e32 = float(real_t(eps))
                what = None
                if np.any(Hv < -tol) or np.any(Hv > 1 + tol):
                    what = "range"
                elif np.any(Hv[ph < -e32] != 0) or np.any(Hv[ph > e32] != 1):
                    what = "plateau"
                elif np.any(np.diff(Hv) < -tol):
                    what = "monotone"
                out2 = r.normal(size=shape).astype(real_t)
                gen(blend_width=eps, real_t=real_t)(char_func_field=out2, level_set_field=(-phi_a).astype(real_t))
                if what is None and np.any(np.abs(Hv + out2.ravel() - 1) > tol):
                    what = "H(phi)+H(-phi)=1"
                if what:
                    return _fail(cases, samples, oracle="heaviside_" + what, dim=dim, dtype=real_t.__name__, blend_width=eps,
                                 level_set=impl.tolist(ph), H=impl.tolist(Hv))
        # ---------------- boundary-zone damping
        for dim, w in itertools.product((2, 3), range(0, 7) if tier != "quick" else (0, 1, 2, 5)):
            shape = tuple(int(v) for v in r.integers(2 * max(w, 1) + 1, 2 * max(w, 1) + 5, size=dim))
            nx = shape[-1]
            dx = 1.0 / nx
            coords = [(np.arange(n_) + 0.5) * dx for n_ in shape]
            mesh = np.meshgrid(*coords, indexing="ij")
            f = r.normal(size=shape)
            f0 = f.copy()
            kw = {"x_grid_field": np.ascontiguousarray(mesh[-1]), "y_grid_field": np.ascontiguousarray(mesh[-2])}
            if dim == 3:
                kw["z_grid_field"] = np.ascontiguousarray(mesh[0])
            k = getattr(spne, f"gen_penalise_field_boundary_pyst_kernel_{dim}d")(width=w, dx=dx, real_t=np.float64, **kw)
            try:
                k(field=f)
            except Exception as e:  # noqa: BLE001
                return _fail(cases, samples, oracle="damping_raises", dim=dim, width=w, shape=list(shape), error=repr(e))
            cases += 1
            zone = R.ring_mask(shape, w) if w else np.zeros(shape, dtype=bool)
            what = None
            if not np.array_equal(f[~zone], f0[~zone]):
                what = "cells outside the zone changed"
            elif w and np.max(np.abs(f[R.ring_mask(shape, 1)])) > 1e-12 * (1 + np.max(np.abs(f0))):
                what = "outermost ring not driven to zero"
            elif w:
                inner_edge = R.ring_mask(shape, w) & ~R.ring_mask(shape, w - 1) if w > 1 else R.ring_mask(shape, 1)
                bound = np.max(np.abs(f0[inner_edge]))
                if np.max(np.abs(f[zone])) > bound * (1 + 1e-12):
                    what = "zone value exceeds the largest inner-edge magnitude"
                elif impl.relerr(f, R.damp(f0, w, dim)) > 1e-12:
                    what = "differs from the documented sine profile"
            if what:
                return _fail(cases, samples, oracle="damping", what=what, dim=dim, width=w, shape=list(shape), field=impl.tolist(f0))
        # ---------------- Laplacian filters
        for ftype, order in itertools.product(("multiplicative", "convolution"), (1, 2, 3, 4) if tier != "quick" else (1, 3)):
            shape = tuple(int(v) for v in r.integers(2 * order + 6, 2 * order + 9, size=3))
            fb1, fb2 = r.normal(size=shape), r.normal(size=shape)  # dirty work buffers
            k = spne.gen_laplacian_filter_kernel_3d(filter_order=order, filter_flux_buffer=fb1, field_buffer=fb2,
                                                    real_t=np.float64, filter_type=ftype)
            I = (slice(order + 1, -(order + 1)),) * 3
            idx = np.indices(shape)
            const = np.full(shape, 2.5)
            k(scalar_field=const)
            cases += 1
            if np.max(np.abs(const[I] - 2.5)) > 1e-12:
                return _fail(cases, samples, oracle="filter_constant_not_fixed", filter_type=ftype, order=order, shape=list(shape))
            fb1[...] = r.normal(size=shape); fb2[...] = r.normal(size=shape)
            cb = ((-1.0) ** idx.sum(axis=0))
            k(scalar_field=cb)
            cases += 1
            if np.max(np.abs(cb[I])) > 1e-12:
                return _fail(cases, samples, oracle="filter_checkerboard_not_annihilated", filter_type=ftype, order=order, shape=list(shape))
            th = r.uniform(0.2, 3.0, size=3); ph = r.uniform(0, 6, size=3)
            mode = np.cos(th[0] * idx[0] + ph[0]) * np.cos(th[1] * idx[1] + ph[1]) * np.cos(th[2] * idx[2] + ph[2])
            m0 = mode.copy()
            fb1[...] = r.normal(size=shape); fb2[...] = r.normal(size=shape)
            k(scalar_field=mode)
            s = (1 - np.cos(th)) / 2
            fac = 1 - np.prod(s) ** order if ftype == "multiplicative" else np.prod(1 - s ** order)
            cases += 1
            if not (0 <= fac <= 1) or np.max(np.abs(mode[I] - fac * m0[I])) > 1e-11:
                return _fail(cases, samples, oracle="filter_mode_factor", filter_type=ftype, order=order, shape=list(shape),
                             theta=impl.tolist(th), expected_factor=float(fac), max_dev=float(np.max(np.abs(mode[I] - fac * m0[I]))))
            # independence of prior buffer contents (whole array)
            a = r.normal(size=shape); b = a.copy()
            fb1[...] = r.normal(size=shape); fb2[...] = r.normal(size=shape)
            k(scalar_field=a)
            fb1[...] = r.normal(size=shape); fb2[...] = r.normal(size=shape)
            k(scalar_field=b)
            cases += 1
            if not np.array_equal(a, b):
                cell = np.argwhere(a != b)[0].tolist()
                return _fail(cases, samples, oracle="filter_depends_on_prior_buffer_contents", filter_type=ftype, order=order,
                             shape=list(shape), cell=cell)
        if len(samples) < 2:
            samples.append({"oracle": "c19", "cases_so_far": cases})
    return {"ok": True, "cases": cases, "failing_input": None, "samples": samples}


def replay(fi):
    return run(seed=fi.get("seed", 0), tier="thorough")
