"""C20 oracle: on the real implementation, (a) Euler-forward kernels return field + flux(field) with the
library's own flux wrapper for the given step, (b) SSP-RK3 equals (I + A + A²/2 + A³/6) with A built from the
library's own stretching-flux kernel for the full step."""
import numpy as np

import impl
import ref as R
from impl import spne


def run(seed=0, tier="quick", aimed=None):
    n = 2 if tier == "quick" else 12
    cases = 0
    samples = []
    for t in range(n):
        for real_t, tol in ((np.float64, 1e-11), (np.float32, 2e-4)):
            r = impl.rng(seed, "c20", t)
            nz, ny, nx = (int(v) for v in r.integers(6, 10, size=3))
            w = r.normal(size=(3, nz, ny, nx)).astype(real_t)
            u = r.normal(size=(3, nz, ny, nx)).astype(real_t)
            p = float(r.uniform(0.01, 0.1))
            fk = spne.gen_vorticity_stretching_flux_pyst_kernel_3d(real_t=real_t)

            def A(x):
                out = np.zeros_like(x)
                fk(vorticity_stretching_flux_field=out, vorticity_field=x, velocity_field=u, prefactor=p)
                return out.astype(np.float64)

            # Euler forward stretching
            w1 = w.copy(); flux = r.normal(size=w.shape).astype(real_t)
            spne.gen_vorticity_stretching_timestep_euler_forward_pyst_kernel_3d(real_t=real_t)(
                vorticity_field=w1, velocity_field=u, vorticity_stretching_flux_field=flux, dt_by_2_dx=p)
            cases += 1
            e = impl.relerr(w1, w + A(w))
            if e > tol:
                return {"ok": False, "cases": cases, "samples": samples, "failing_input": {
                    "oracle": "euler_stretching_3d", "dtype": real_t.__name__, "grid": [nz, ny, nx], "dt_by_2_dx": p, "err": e, "seed_case": t}}
            # SSP-RK3
            mid = r.normal(size=w.shape).astype(real_t)
            w2 = w.copy(); flux = r.normal(size=w.shape).astype(real_t)
            spne.gen_vorticity_stretching_timestep_ssprk3_pyst_kernel_3d(real_t=real_t, midstep_buffer_vector_field=mid)(
                vorticity_field=w2, velocity_field=u, vorticity_stretching_flux_field=flux, dt_by_2_dx=p)
            w64 = w.astype(np.float64)
            Aw = A(w); AAw = A(Aw.astype(real_t)); AAAw = A(AAw.astype(real_t))
            nominal = w64 + Aw + AAw / 2 + AAAw / 6
            cases += 1
            e = impl.relerr(w2, nominal)
            if e > tol:
                coef = None
                return {"ok": False, "cases": cases, "samples": samples, "failing_input": {
                    "oracle": "ssprk3_polynomial", "dtype": real_t.__name__, "grid": [nz, ny, nx], "dt_by_2_dx": p,
                    "err_vs_nominal": e, "err_vs_I+2/3A+1/3A2+1/12A3": impl.relerr(w2, w64 + 2 / 3 * Aw + AAw / 3 + AAAw / 12),
                    "seed_case": t}}
            # Euler advection / diffusion, 3D scalar and vector, with the library's own flux wrappers
            for ft in ("scalar", "vector"):
                f = (w[0] if ft == "scalar" else w).copy()
                fl = np.zeros((nz, ny, nx), dtype=real_t) + real_t(7)
                kd = spne.gen_diffusion_timestep_euler_forward_pyst_kernel_3d(real_t=real_t, field_type=ft)
                fk2 = spne.gen_diffusion_flux_pyst_kernel_3d(real_t=real_t, field_type="scalar")
                f0 = f.copy()
                if ft == "scalar":
                    kd(field=f, diffusion_flux=fl, nu_dt_by_dx2=p)
                else:
                    kd(vector_field=f, diffusion_flux=fl, nu_dt_by_dx2=p)
                comps = [f0] if ft == "scalar" else list(f0)
                outs = [f] if ft == "scalar" else list(f)
                for a0, a1 in zip(comps, outs):
                    ex = np.zeros_like(a0)
                    fk2(diffusion_flux=ex, field=a0, prefactor=p)
                    cases += 1
                    e = impl.relerr(a1, a0.astype(np.float64) + ex)
                    if e > tol:
                        return {"ok": False, "cases": cases, "samples": samples, "failing_input": {
                            "oracle": f"euler_diffusion_3d[{ft}]", "dtype": real_t.__name__, "grid": [nz, ny, nx], "err": e, "seed_case": t}}
                f = (w[0] if ft == "scalar" else w).copy(); f0 = f.copy()
                fl = np.zeros((nz, ny, nx), dtype=real_t) + real_t(7)
                ka = spne.gen_advection_timestep_euler_forward_conservative_eno3_pyst_kernel_3d(real_t=real_t, field_type=ft)
                if ft == "scalar":
                    ka(field=f, advection_flux=fl, velocity=u, dt_by_dx=p)
                else:
                    ka(vector_field=f, advection_flux=fl, velocity=u, dt_by_dx=p)
                comps = [f0] if ft == "scalar" else list(f0)
                outs = [f] if ft == "scalar" else list(f)
                for a0, a1 in zip(comps, outs):
                    ex = a0.astype(np.float64).copy()
                    ex[2:-2, 2:-2, 2:-2] -= p * R.eno3_divergence(a0.astype(np.float64), u.astype(np.float64))
                    cases += 1
                    e = impl.relerr(a1, ex)
                    if e > tol:
                        return {"ok": False, "cases": cases, "samples": samples, "failing_input": {
                            "oracle": f"euler_advection_3d[{ft}]", "dtype": real_t.__name__, "grid": [nz, ny, nx], "err": e, "seed_case": t}}
        if len(samples) < 2:
            samples.append({"oracle": "c20", "grid": [nz, ny, nx], "dt_by_2_dx": p, "checked": cases})
    # (c) the step the simulators hand to these kernels is the step they are asked for: passive-transport steps (scalar / vector,
    #     non-square grids) = field + dt * flux(field) with the nominal prefactors dt/dx and nu dt/dx^2, dx = x_range/nx
    from oracles import c01

    fi, c = c01.passive_reference_steps(seed + 3, "c20passive", "c20_simulator_step_is_euler_step", reps=1 if tier == "quick" else 4)
    cases += c
    if fi is not None:
        return {"ok": False, "cases": cases, "samples": samples, "failing_input": fi}
    return {"ok": True, "cases": cases, "failing_input": None, "samples": samples}


def replay(fi):
    return run(seed=fi.get("seed", 0), tier="thorough")
