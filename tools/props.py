"""Registry: property id -> Lean modules, correspondence runs, oracle, trusted base."""

TB_KERNEL = [
    "modelled, not verified: pystencils code generation, C compiler, OpenMP (kernels are executed by a numpy interpreter of the captured assignments)",
    "floating-point rounding is not modelled: theorems are over an arbitrary ordered field (read at ℝ)",
]

SOURCE_COMMITS: list = []
NOT_CLAIMED: dict = {}

KERNEL_NOTE = ("Theorems quantify over all field values in an arbitrary ordered field (read at ℝ = exact arithmetic), all cells and "
               "all spacings. Tie to the code: kernel definitions are regenerated from /repo's generator functions on every run "
               "(executed, not parsed); a changed coefficient/sign/offset/branch breaks a proof obligation. Assumed: pystencils "
               "front end + sympy canonicalisation + my sympy->Lean printer (self-checked by exact rational evaluation each run); "
               "pystencils code generation/C compiler/OpenMP and floating-point rounding are modelled, not verified.")

REGISTRY = {
    "C04": {
        "modules": ["SophtVerif.Props.C04"],
        "required_theorems": ["C04_face_match_x_2d", "C04_face_match_y_2d", "C04_face_match_x_3d",
                              "C04_face_match_y_3d", "C04_face_match_z_3d"],
        "oracle": "oracles.c04:run",
        "level_text": "Machine-checked proof (Lean 4) on the kernels regenerated from the code: for every axis in 2D and 3D and every combination of upwind branches the flux leaving a cell through a face equals the flux entering its neighbour (conservation form). Grid-sum conservation over a whole step is so far only observed by the oracle on the implementation (program-level theorem in progress).",
        "level_note": KERNEL_NOTE,
        "technique": "Lean 4 proof over translator-generated kernel definitions (split_ifs/ring/linarith)",
        "trusted_base": TB_KERNEL,
        "assumptions": ["exact arithmetic"],
    },
    "C05": {
        "modules": ["SophtVerif.Props.C05"],
        "required_theorems": ["C05_diffusion_2d", "C05_diffusion_3d", "C05_curl_x_3d", "C05_curl_y_3d", "C05_curl_z_3d",
                              "C05_divergence_3d", "C05_inplane_curl_2d", "C05_outplane_curl_x_2d", "C05_outplane_curl_y_2d",
                              "C05_stretching_flux_3d", "C05_filter_x", "C05_filter_y", "C05_filter_z",
                              "C05_eno3_x_2d_cubic_same_dir", "C05_eno3_x_2d_quadratic_any_dir"],
        "oracle": "oracles.c05:run",
        "level_text": "Machine-checked proof (Lean 4): every generated differential stencil equals its continuous operator on all polynomials of degree <= 2 with symbolic coefficients, any spacing h != 0, any cell, with the documented sign/axis/prefactor convention; ENO3 flux difference exact for cubic nodal flux in same-direction branches and for quadratics in all four branch combinations.",
        "level_note": KERNEL_NOTE,
        "technique": "Lean 4 proof over translator-generated kernel definitions (field_simp/ring on symbolic polynomials)",
        "trusted_base": TB_KERNEL,
        "assumptions": ["exact arithmetic", "polynomials sampled at cell centres (n+1/2)h with x along the last array axis"],
    },
    "C12": {
        "modules": ["SophtVerif.Props.C12"],
        "required_theorems": ["C12_div_curl_zero_3d", "C12_forcing_update_divfree_3d", "C12_rotational_update_divfree_3d",
                              "C12_2d_velocity_divfree", "C12_2d_curl_curl", "C12_update_eq_curl_2d", "C12_update_eq_curl_3d",
                              "C12_penalised_eq_update_of_difference_2d", "C12_penalised_eq_update_of_difference_3d"],
        "oracle": "oracles.c12:run",
        "level_text": "Machine-checked proof (Lean 4) of each named identity (div curl = 0, curl-type updates create no divergence, 2D velocity divergence-free, curl curl = wide Laplacian, update = field + prefactor*curl, penalised = update of difference) for all symbolic cell values on the generated kernels.",
        "level_note": KERNEL_NOTE,
        "technique": "Lean 4 proof over translator-generated kernel definitions (ring)",
        "trusted_base": TB_KERNEL,
        "assumptions": ["exact arithmetic"],
    },
    "C13": {
        "modules": ["SophtVerif.Props.C13"],
        "required_theorems": ["C13_frame_buffers", "C13_frame_cells", "C13_set_fixed_val_2d", "C13_set_boundary_2d",
                              "C13_diffusion_flux_2d", "C13_outplane_curl_2d", "C13_inplane_curl_2d",
                              "C13_update_vorticity_from_forcing_2d", "C13_brinkmann_2d", "C13_brinkmann_vec_2d",
                              "C13_elementwise_sum_2d", "C13_elementwise_copy_2d", "C13_elementwise_saxpby_2d"],
        "correspondence": ["corr.cases2d:run_wrappers", "corr.cases3d:run_wrappers"],
        "trusted_base": TB_KERNEL + ["hand-written wrapper programs (Model/Prog2D.lean) are trusted as far as the trace + numeric correspondence exercised them: every 2D public generator x option on non-square strided views, this run"],
        "assumptions": ["exact arithmetic for values; bit-identity of untouched cells/buffers is observed on the implementation (sentinel-padded strided views) and proved for the model"],
        "level_text": "Machine-checked proof (Lean 4) for the 2D public kernels: each wrapper program (element-wise algebra, boundary setters of any width, diffusion flux and out-of-plane curl with/without ghost-zone reset, in-plane curl, vorticity updates, Brinkmann scalar/vector) writes its closed form on its documented region and leaves every other cell and buffer unchanged, for all stores, scalars and grid sizes >= 1; generic frame theorems cover every program. The wrapper programs are hand-written models tied to the code by an exact kernel-call-trace comparison plus numeric execution of the model at Q against the implementation, and the implementation is additionally compared with an independent numpy reference. 3D wrappers: correspondence and reference only so far (theorems in progress).",
        "level_note": KERNEL_NOTE + " Wrapper programs are hand models validated by correspondence (complete over generator options, sampled over sizes/contents).",
        "technique": "Lean 4 proof over generated kernels + hand-written wrapper programs; trace/numeric correspondence",
    },
    "C20": {
        "modules": ["SophtVerif.Props.C20"],
        "required_theorems": ["C20_euler_diffusion_2d", "C20_euler_advection_2d", "C20_euler_diffusion_2d_explicit",
                              "C20_euler_advection_2d_explicit", "C20_ssprk3_nominal"],
        "correspondence": ["corr.cases2d:run_wrappers", "corr.cases3d:run_wrappers"],
        "oracle": "oracles.c20:run",
        "trusted_base": TB_KERNEL + ["SSP-RK3: the polynomial identity is proved for the abstract stage structure; that the kernel has this stage structure with full step in every stage is checked on the implementation by the oracle (stage prefactors) — program-level tie of the 3D kernel in progress"],
        "assumptions": ["exact arithmetic", "flux operator linear in vorticity for frozen velocity (abstract linear map A)"],
        "level_text": "Machine-checked proof (Lean 4): the 2D Euler-forward advection and diffusion time-step programs return field + flux(field) with the library's own flux wrapper for the step given (flux buffer reset first; result independent of prior buffer content), all stores/sizes; SSP-RK3 stage structure with the full step in every stage equals I + A + A^2/2 + A^3/6 for every linear A (and the previous half-step third stage provably does not). 3D Euler kernels and the SSP-RK3 kernel's stage prefactors are so far tied by the oracle on the implementation only.",
        "level_note": KERNEL_NOTE,
        "technique": "Lean 4 proof (program unfolding; `module` for the Runge-Kutta polynomial)",
    },
    "C15": {
        "modules": ["SophtVerif.Props.C15"],
        "required_theorems": ["C15_kernel_independent", "C15_ghost_is_max_offset", "C15_threads_forwarded",
                              "C15_schedule_free", "C15_schedule_free_eq_simultaneous", "C15_callsite_noalias_ns2d"],
        "correspondence": ["corr.cases2d:run_step", "corr.cases3d:run_step"],
        "oracle": "oracles.c15:run",
        "trusted_base": TB_KERNEL + ["NOT reachable by this technique: real OpenMP execution (back end absent), FFTW plans that depend on the thread count, numba/LLVM fastmath reassociation — bit-level identity across thread counts is not claimed for FFT-based steps (DESIGN C15, finding F6)"],
        "assumptions": ["a parallel schedule is equivalent to some serial order of the per-cell updates (no torn writes)"],
        "level_text": "Machine-checked proof (Lean 4), partial at the bit level: (1) every row of the kernel table regenerated from the code satisfies the independence condition (each written field written once and read at the centre only), ghost width = max offset, thread request forwarded or explicitly serial — decide over the whole table; (2) no call of the 2D Navier-Stokes step programs (all 28 configurations) binds a written buffer to an off-centre-read formal — decide; tied to the implementation by the tracer's np.shares_memory record on the arrays actually passed; (3) any serial order of independent per-cell updates equals the simultaneous update (order-independence theorem). Spreading is checked to be serial (no prange/parallel). Real OpenMP/FFTW/fastmath behaviour is outside the model.",
        "level_note": KERNEL_NOTE + " Bit-identity is proved for stored values in exact arithmetic; FFTW thread-dependent rounding is outside the model.",
        "technique": "Lean 4 proof (decide over regenerated kernel table + order-independence theorem); trace correspondence of call-site aliasing",
    },
    "C16": {
        "modules": ["SophtVerif.Props.C16"],
        "required_theorems": ["C16_dt_pos", "C16_prefac_linear", "C16_cfl", "C16_cfl_every_cell", "C16_diffusion_limit",
                              "C16_dt_inviscid", "C16_max_principle_kernel_2d", "C16_max_principle_kernel_3d",
                              "C16_max_principle_step_2d", "C16_recommended_dt_is_monotone"],
        "correspondence": ["corr.dt:run", "corr.cases2d:run_wrappers"],
        "oracle": "corr.dt:oracle",
        "trusted_base": TB_KERNEL + ["Model/Dt.lean is a hand model of compute_advection_diffusion_stable_timestep, tied numerically (all three simulator classes, both precisions, zero/spike/random velocity, nu = 0)",
                                     "numpy amax / sum / fabs are taken as exact maximum / sum of absolute values"],
        "assumptions": ["exact arithmetic (the float32/float64 evaluation of the formula is compared within 64 ulp)"],
        "level_text": "Machine-checked proof (Lean 4): for all cfl, dx > 0, nu >= 0, tol > 0 and every velocity field (through its maximum, including zero) the modelled dt is positive and finite, linear in the prefactor, satisfies dt*sum|u|/dx <= cfl in every cell and nu*dt/dx^2 <= 0.9/(2 dim) exactly (nu = 0 handled as an explicit branch); for 0 <= r <= 1/(2 dim) the generated 2D/3D diffusion stencil update is a convex combination of the stencil values, and the 2D diffusion time-step program leaves the ring unchanged and creates no new extrema. A genuine defect (absolute slack +10 eps on the diffusion limit) was found and repaired (fix: 2b8a4fc).",
        "level_note": KERNEL_NOTE + " The dt formula is a hand model validated by numeric correspondence.",
        "technique": "Lean 4 proof (ordered-field inequalities) + numeric correspondence of the dt model",
    },
    "C19": {
        "modules": ["SophtVerif.Props.C19"],
        "required_theorems": ["C19_brinkmann_2d", "C19_brinkmann_3d", "C19_brinkmann_fixed_2d", "C19_brinkmann_lagrangian",
                              "C19_heaviside", "brink_between", "brink_contracts"],
        "correspondence": ["corr.cases2d:run_wrappers", "corr.cases3d:run_wrappers"],
        "oracle": "oracles.c19:run",
        "trusted_base": TB_KERNEL + ["Real.sin / Real.pi instantiate the kernel's transcendental hooks (Transc); the recognised pi-multiples are listed in the evidence",
                                     "Lagrangian Brinkmann variant: one-line hand model, tied by the oracle"],
        "assumptions": ["exact real arithmetic (H(-eps) = 0 exactly; in floating point it is 0 within rounding)"],
        "level_text": "Machine-checked proof (Lean 4): the generated Brinkmann kernels (2D, 3D, fixed value) and the Lagrangian variant are convex combinations of field and target for every penalty >= 0 and indicator >= 0, identity where the indicator vanishes, contraction by 1/(1+lambda*chi) (hence -> target); the generated smooth characteristic function (sine Heaviside, kernel at R with Real.sin/Real.pi) lies in [0,1], is 0 / 1 beyond the blend width and at -eps / +eps, is non-decreasing and satisfies H(phi)+H(-phi)=1 for all phi and eps > 0. Boundary-zone damping and Laplacian-filter statements: program-level theorems in progress; currently decided by model correspondence (2D damping) and evaluated on the implementation by the oracle (all widths 0..6, orders 1..4, both filter types, dirty buffers).",
        "level_note": KERNEL_NOTE,
        "technique": "Lean 4 proof over generated kernels (field_simp/linarith; Lipschitz bound of sin for monotonicity)",
    },
}
