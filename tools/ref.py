"""Independent numpy reference of the documented operators (written from the documentation and the
property statements, not from the kernels).  Conventions: arrays are indexed (…, z, y, x): x is the LAST axis;
vector fields have a leading component axis ordered (x, y[, z]).  Used only by the failing-input search
(oracles); it decides nothing."""
from __future__ import annotations

import numpy as np


def ax_of(comp, dim):
    """array axis of coordinate `comp` (0 = x) for a dim-D scalar array"""
    return dim - 1 - comp


def inner(a, g, dim=None):
    dim = a.ndim if dim is None else dim
    lead = a.ndim - dim
    return (slice(None),) * lead + tuple(slice(g, n - g) for n in a.shape[lead:])


def shift(a, comp, k, g):
    """values at cell + k·e_comp for cells of the interior of reach g"""
    dim = a.ndim
    sl = [slice(g, n - g) for n in a.shape]
    ax = ax_of(comp, dim)
    n = a.shape[ax]
    sl[ax] = slice(g + k, n - g + k)
    return a[tuple(sl)]


def dc(a, comp, g=1):
    """centred difference a(+e) − a(−e) (no 1/2h)"""
    return shift(a, comp, 1, g) - shift(a, comp, -1, g)


def ring_mask(shape, w):
    m = np.zeros(shape, dtype=bool)
    for ax, n in enumerate(shape):
        sl = [slice(None)] * len(shape)
        sl[ax] = slice(0, w)
        m[tuple(sl)] = True
        sl[ax] = slice(max(0, n - w), n)
        m[tuple(sl)] = True
    return m


def laplacian_flux(f, p, old, reset):
    """p·(Σ neighbours − 2d·f) on the interior; ring: 0 if reset else old"""
    dim = f.ndim
    out = np.array(old, copy=True)
    if reset:
        out[ring_mask(f.shape, 1)] = 0
    acc = -2 * dim * f[inner(f, 1)]
    for c in range(dim):
        acc = acc + shift(f, c, 1, 1) + shift(f, c, -1, 1)
    out[inner(f, 1)] = p * acc
    return out


def eno3_face(q, v, comp, g, side):
    """upwinded ENO3 face flux at the +comp face (side=+1) or −comp face (side=−1) of interior cells"""
    o = 0 if side > 0 else -1  # left cell of the face relative to the cell
    ql = {k: shift(q, comp, o + k, g) for k in (-1, 0, 1, 2)}
    vl = {k: shift(v, comp, o + k, g) for k in (0, 1)}
    pos = (vl[0] + vl[1]) > 0
    fp = ql[1] / 3 + 5 * ql[0] / 6 - ql[-1] / 6
    fn = ql[0] / 3 + 5 * ql[1] / 6 - ql[2] / 6
    return np.where(pos, fp, fn)


def eno3_divergence(f, vel):
    """Σ_axes (F₊ − F₋) on the interior of reach 2 (no 1/dx factor)"""
    dim = f.ndim
    acc = 0
    for c in range(dim):
        q = f * vel[c]
        acc = acc + eno3_face(q, vel[c], c, 2, +1) - eno3_face(q, vel[c], c, 2, -1)
    return acc


def curl3(F):
    """(curl F)·2h on the interior of reach 1"""
    return np.array([dc(F[2], 1) - dc(F[1], 2), dc(F[0], 2) - dc(F[2], 0), dc(F[1], 0) - dc(F[0], 1)])


def curl2_in(F):
    return dc(F[1], 0) - dc(F[0], 1)


def curl2_out(psi):
    return np.array([dc(psi, 1), -dc(psi, 0)])


def div3(F):
    return dc(F[0], 0) + dc(F[1], 1) + dc(F[2], 2)


def heaviside(phi, eps):
    out = np.where(phi > eps, 1.0, 0.0)
    mid = np.abs(phi) <= eps
    out = out + np.where(mid, 0.5 * (1 + phi / eps + np.sin(np.pi * phi / eps) / np.pi), 0.0)
    return out


def damp(f, w, dim):
    """boundary-zone damping of width w along x, then y[, then z]; cell-centre coordinates cancel:
    factor at depth k (0 = outermost) is sin(π k / (2w)); the zone takes the inner-edge value first"""
    f = np.array(f, copy=True)
    if w == 0:
        return f
    lead = f.ndim - dim
    for c in range(dim):
        ax = lead + ax_of(c, dim)
        n = f.shape[ax]
        idx = np.arange(n)
        def sl(s):
            t = [slice(None)] * f.ndim
            t[ax] = s
            return tuple(t)
        fac = np.sin(np.pi * np.arange(w) / (2 * w))
        shp = [1] * f.ndim
        shp[ax] = w
        # the documented sequence per axis: fill the front zone from its inner edge, THEN the back zone from its inner edge (on grids
        # narrower than two zone widths the second fill sees the first), then the two sine ramps
        f[sl(slice(0, w))] = f[sl(slice(w - 1, w))].copy()
        f[sl(slice(n - w, n))] = f[sl(slice(n - w, n - w + 1))].copy()
        f[sl(slice(0, w))] = f[sl(slice(0, w))] * fac.reshape(shp)
        f[sl(slice(n - w, n))] = f[sl(slice(n - w, n))] * fac[::-1].reshape(shp)
    return f


def filter1d(f, comp, order, flux_ring_zero=True):
    """order-fold application of the 1D filter Laplacian (−¼ δ²) along `comp`, interior of reach 1,
    ring of the flux = 0"""
    cur = np.array(f, copy=True)
    for _ in range(order):
        nxt = np.zeros_like(cur)
        nxt[inner(cur, 1)] = 0.25 * (2 * cur[inner(cur, 1)] - shift(cur, comp, 1, 1) - shift(cur, comp, -1, 1))
        cur = nxt
    return cur


def laplacian_filter(f, order, ftype):
    f = np.array(f, copy=True)
    if order == 0 and ftype == "multiplicative":
        # zero iterations: flux buffer keeps its (arbitrary) interior content — undefined; callers avoid it
        raise ValueError("order 0")
    if ftype == "multiplicative":
        cur = f
        for _ in range(order):
            for c in range(3):
                cur = filter1d(cur, c, 1)
        return f - cur
    for c in range(3):
        f = f - filter1d(f, c, order)
    return f


# --------------------------------------------------------------------------- reference time steps (C01)


def ns_step_reference(state, cfg, solve):
    """One documented Navier–Stokes step.  `state`: dict vorticity, velocity, forcing (or None);
    cfg: dim, dt, dx, nu, rho, width, free_stream (array or None), filter (None or (order, type));
    `solve(rhs) -> psi` is the Poisson solve (a parameter of the specification, decided by C03 / C11).
    Returns the new state (new arrays); the stream function is returned too."""
    dim = cfg["dim"]
    w = np.array(state["vorticity"], dtype=np.float64, copy=True)
    u = np.array(state["velocity"], dtype=np.float64, copy=True)
    dt, dx, nu = cfg["dt"], cfg["dx"], cfg["nu"]
    F = state.get("forcing")
    if F is not None:
        F = np.asarray(F, dtype=np.float64)
        p = dt / (2 * dx * cfg["rho"])
        if dim == 2:
            w[inner(w, 1)] += p * curl2_in(F)
        else:
            w[inner(w, 1, 3)] += p * curl3(F)
    if dim == 2:
        w[inner(w, 2)] -= (dt / dx) * eno3_divergence(w, u)
        w = w + laplacian_flux(w, nu * dt / dx / dx, np.zeros_like(w), True)
    else:
        uxw = np.cross(u, w, axis=0)
        w[inner(w, 1, 3)] += (dt / (2 * dx)) * curl3(uxw)
        w = np.array([c + laplacian_flux(c, nu * dt / dx / dx, np.zeros_like(c), True) for c in w])
        if cfg.get("filter"):
            order, ftype = cfg["filter"]
            if order > 0:
                w = np.array([laplacian_filter(c, order, ftype) for c in w])
            else:
                raise ValueError("filter order 0 leaves the result dependent on scratch contents")
    w = damp(w, cfg["width"], dim)
    psi = solve(w)
    unew = np.zeros_like(u)
    if dim == 2:
        unew[(slice(None),) + inner(psi, 1)] = (0.5 / dx) * curl2_out(psi)
    else:
        unew[inner(unew, 1, 3)] = (0.5 / dx) * curl3(psi)
    if cfg.get("free_stream") is not None:
        unew = unew + np.asarray(cfg["free_stream"], dtype=np.float64).reshape((dim,) + (1,) * dim)
    return {"vorticity": w, "velocity": unew, "forcing": None if F is None else np.zeros_like(F), "psi": psi}


def passive_step_reference(f, u, dt, dx, nu):
    """advection (ENO3, Euler forward) then diffusion, scalar field or vector field component-wise"""
    f = np.array(f, dtype=np.float64, copy=True)
    u = np.asarray(u, dtype=np.float64)
    dim = u.shape[0]
    comps = [f] if f.ndim == dim else list(f)
    out = []
    for c in comps:
        c = c.copy()
        c[inner(c, 2)] -= (dt / dx) * eno3_divergence(c, u)
        c = c + laplacian_flux(c, nu * dt / dx / dx, np.zeros_like(c), True)
        out.append(c)
    return out[0] if f.ndim == dim else np.array(out)
