#!/bin/bash
# run every registered quick check on the current tree (sequentially); summary on stdout
cd /verif
for p in $(/venv/bin/python -c "import json;print(' '.join(c['property_id'] for c in json.load(open('MANIFEST.json'))['checks']))"); do
  /venv/bin/python tools/check.py --property $p --tier ${1:-quick} 2>&1 | grep -E "^(OK|VIOLATION|KNOWN)" 
done
