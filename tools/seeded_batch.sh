#!/bin/bash
# every seeded change against the check of the property it was written for, plus natural neighbours
cd /verif
run() { timeout 3000 /venv/bin/python tools/seeded_eval.py "$1" "$2" 2>&1 | grep -v WARNING; }
run C01 C01,C18
run C02 C02,C04,C05,C01
run C03 C03,C18
run C04 C04
run C05 C05,C04
run C06 C06,C07
run C07 C07
run C08 C08
run C09 C09,C08
run C10 C10,C18
run C11 C11
run C12 C12,C05
run C13 C13,C19,C18
run C14 C14,C03
run C15 C15
run C16 C16
run C17 C17,C18
run C18 C18,C03
run C19 C19,C13
run C20 C20
