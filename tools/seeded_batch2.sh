#!/bin/bash
# round 2 of seeded changes (seeded/<ID>b) against the check of their property
cd /verif
for id in "$@"; do
  p=${id%[bcdefg]}
  timeout 3000 /venv/bin/python tools/seeded_eval.py /verif/seeded/$id/patch.diff $p 2>&1 | grep -v WARNING
done
