#!/venv/bin/python
"""Apply a seeded change (seeded/<ID>/patch.diff) to /repo, run the given checks, undo the change.
usage: seeded_eval.py <ID> <PROP>[,<PROP>...] [--tier quick]"""
import json
import os
import subprocess
import sys

ROOT = os.path.dirname(os.path.dirname(os.path.abspath(__file__)))


def sh(cmd, **kw):
    return subprocess.run(cmd, shell=True, capture_output=True, text=True, **kw)


def main():
    sid, props = sys.argv[1], sys.argv[2].split(",")
    tier = sys.argv[4] if len(sys.argv) > 4 and sys.argv[3] == "--tier" else "quick"
    patch = sid if sid.endswith(".diff") else os.path.join(ROOT, "seeded", sid, "patch.diff")
    assert sh("git -C /repo status --porcelain").stdout.strip() == "", "/repo not clean"
    r = sh(f"git -C /repo apply {patch}")
    if r.returncode != 0:
        r = sh(f"cd /repo && patch -p1 --fuzz=3 < {patch}")
        if r.returncode != 0:
            print("PATCH DOES NOT APPLY", r.stdout[-500:], r.stderr[-500:])
            sh("git -C /repo checkout -- . && git -C /repo clean -fdq -e '*.orig' sopht")
            return 2
    out = {}
    import shutil, tempfile
    evbak = tempfile.mkdtemp(prefix="evbak", dir=os.path.join(ROOT, ".cache"))
    for f in os.listdir(os.path.join(ROOT, "evidence")):
        shutil.copy2(os.path.join(ROOT, "evidence", f), evbak)
    try:
        for p in props:
            c = sh(f"cd {ROOT} && /venv/bin/python tools/check.py --property {p} --tier {tier}", timeout=3600)
            lines = [l for l in c.stdout.splitlines() if l.startswith(("VIOLATION", "OK", "KNOWN"))]
            out[p] = {"exit": c.returncode, "lines": lines}
            detail = ""
            for l in lines:
                if l.startswith("VIOLATION"):
                    path = l.split("replay=")[1].split()[0]
                    rep = json.load(open(path))
                    fi = rep.get("failing_input") or {}
                    detail = f" broken={[b['name'][:60] for b in rep['broken']][:3]} oracle={fi.get('oracle')}"
                    out[p]["broken"] = [b["name"] for b in rep["broken"]][:6]
                    out[p]["failing_input_oracle"] = fi.get("oracle")
                    out[p]["failing_input_what"] = str(fi.get("what", ""))[:300]
                    out[p]["no_failing_input_found"] = "no-failing-input-found" in l
            print(f"{sid} -> {p}: exit={c.returncode} {lines}{detail}")
    finally:
        sh("git -C /repo checkout -- . ; find /repo -name '*.orig' -delete; find /repo -name '*.rej' -delete")
        for f in os.listdir(evbak):  # evidence of the registered checks must come from the unchanged tree
            shutil.copy2(os.path.join(evbak, f), os.path.join(ROOT, "evidence", f))
        shutil.rmtree(evbak, ignore_errors=True)
        sh(f"cd {ROOT} && /venv/bin/python tools/translate.py")  # regenerate Gen/ from the restored tree
    assert sh("git -C /repo status --porcelain").stdout.strip() == "", "/repo not clean after revert"
    ef = (sid[:-5] + f".eval_{tier}.json") if sid.endswith(".diff") else os.path.join(ROOT, "seeded", sid, f"eval_{tier}.json")
    prev = json.load(open(ef)) if os.path.exists(ef) else {}
    prev.update(out)   # one entry per check, latest run wins
    json.dump(prev, open(ef, "w"), indent=1, sort_keys=True)
    return 0


if __name__ == "__main__":
    sys.exit(main())
