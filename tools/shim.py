"""Back-end substitution for pystencils, installed from OUTSIDE /repo.

The repository was written for pystencils 1.4; 2.0 is installed and rejects the
`default_number_float` option, so no generator of the repository runs as shipped.
This module keeps the pystencils *front end* (ps.kernel, ps.fields, Assignment,
make_slice) and replaces

    ps.CreateKernelConfig  -> records its keyword arguments
    ps.kernel              -> remembers the python function the stencil came from
    ps.create_kernel       -> CapturedKernel: keeps the sympy assignments, and when
                              called executes them with a numpy interpreter
                              (pre-state semantics on the iteration region), logging
                              the call when a tracer is active.

Nothing in /repo is edited.  `install()` must be called before the first generator runs.
"""
from __future__ import annotations

import itertools
import os
import sys

import numpy as np
import sympy as sp

REPO = os.environ.get("SOPHT_REPO", "/repo")

REGISTRY: list = []  # every CapturedKernel ever created in this process
TRACERS: list = []  # active tracer callbacks: f(kernel, kwargs)
_installed = False


class Cfg:
    def __init__(self, **kw):
        self.kw = dict(kw)
        self.data_type = kw.get("data_type")
        self.default_number_float = kw.get("default_number_float")
        self.cpu_openmp = kw.get("cpu_openmp", False)
        self.iteration_slice = kw.get("iteration_slice")
        unknown = set(kw) - {"data_type", "default_number_float", "cpu_openmp", "iteration_slice"}
        if unknown:
            raise TypeError(f"shim: unexpected CreateKernelConfig options {sorted(unknown)}")


class KList(list):
    name = None
    qualname = None
    module = None


def _access_cls():
    import pystencils as ps

    return ps.Field.Access


class CapturedKernel:
    def __init__(self, assignments, config):
        Access = _access_cls()
        self.name = getattr(assignments, "name", None) or "anonymous"
        self.qualname = getattr(assignments, "qualname", None) or self.name
        self.module = getattr(assignments, "module", None)
        self.assignments = [(a.lhs, a.rhs) for a in assignments]
        self.config = config
        self.threads = config.cpu_openmp if config is not None else False
        self.slice = config.iteration_slice if config is not None else None
        self.dtype = config.data_type if config is not None else None
        accs = set()
        for lhs, rhs in self.assignments:
            if not isinstance(lhs, Access):
                raise TypeError(f"shim: lhs of {self.name} is not a field access: {lhs!r}")
            accs.add(lhs)
            accs |= rhs.atoms(Access)
        self.accesses = sorted(accs, key=lambda a: (a.field.name, tuple(int(o) for o in a.offsets)))
        self.fields = {}
        for a in self.accesses:
            if a.index != ():
                raise TypeError(f"shim: index dimensions unsupported in {self.name}")
            self.fields[a.field.name] = a.field.spatial_dimensions
        dims = set(self.fields.values())
        if len(dims) != 1:
            raise TypeError(f"shim: mixed field dimensions in {self.name}: {self.fields}")
        self.ndim = dims.pop()
        self.writes = [lhs.field.name for lhs, _ in self.assignments]
        for lhs, _ in self.assignments:
            if any(int(o) != 0 for o in lhs.offsets):
                raise TypeError(f"shim: off-centre write in {self.name}")
        self.reads = {}
        for _, rhs in self.assignments:
            for a in rhs.atoms(Access):
                self.reads.setdefault(a.field.name, set()).add(tuple(int(o) for o in a.offsets))
        self.ghost = max([abs(int(o)) for a in self.accesses for o in a.offsets] + [0])
        scal = set()
        for _, rhs in self.assignments:
            scal |= {s for s in rhs.free_symbols if not isinstance(s, Access)}
        self.scalars = sorted(scal, key=lambda s: s.name)
        self._fn = None
        self.uid = len(REGISTRY)
        REGISTRY.append(self)

    # pystencils API
    def compile(self):
        return self

    # independence condition of pystencils 1.4 (each written field read at centre only)
    def independent(self):
        zero = (0,) * self.ndim
        ok = len(set(self.writes)) == len(self.writes)
        for w in self.writes:
            ok = ok and self.reads.get(w, {zero}) <= {zero}
        return ok

    def region(self, shape):
        """iteration region as list of (lo, hi) per axis, for arrays of `shape`"""
        if self.slice is None:
            g = self.ghost
            return [(g, n - g) for n in shape]
        sl = self.slice
        if not isinstance(sl, tuple):
            sl = (sl,)
        if len(sl) != len(shape):
            raise ValueError(f"shim: slice rank mismatch in {self.name}")
        out = []
        for s, n in zip(sl, shape):
            if isinstance(s, slice):
                lo, hi, st = s.indices(n)
                if st != 1:
                    raise ValueError("shim: strided iteration slice")
                out.append((lo, max(lo, hi)))
            else:
                i = int(s)
                if i < 0:
                    i += n
                out.append((i, i + 1))
        return out

    def _compile_np(self):
        Access = _access_cls()
        fns = []
        for lhs, rhs in self.assignments:
            accs = sorted(rhs.atoms(Access), key=lambda a: (a.field.name, tuple(int(o) for o in a.offsets)))
            dummies = [sp.Dummy(f"acc{i}") for i in range(len(accs))]
            e = rhs.xreplace(dict(zip(accs, dummies)))
            f = lambdify_exact(dummies + list(self.scalars), e, modules="numpy")
            fns.append((lhs.field.name, [(a.field.name, tuple(int(o) for o in a.offsets)) for a in accs], f))
        self._fn = fns

    def __call__(self, **kwargs):
        want = set(self.fields) | {s.name for s in self.scalars}
        if set(kwargs) != want:
            raise TypeError(f"shim: kernel {self.name} called with {sorted(kwargs)}, expects {sorted(want)}")
        for t in TRACERS:
            t(self, kwargs)
        if self._fn is None:
            self._compile_np()
        arrs = {n: kwargs[n] for n in self.fields}
        shapes = {a.shape for a in arrs.values()}
        if len(shapes) != 1:
            raise ValueError(f"shim: kernel {self.name}: field shapes differ {shapes}")
        shape = shapes.pop()
        if len(shape) != self.ndim:
            raise ValueError(f"shim: kernel {self.name}: expected {self.ndim}D arrays, got shape {shape}")
        reg = self.region(shape)
        if any(hi <= lo for lo, hi in reg):
            return
        # pystencils would read outside the array if the ghost layers of a sliced kernel are missing
        svals = [kwargs[s.name] for s in self.scalars]
        if self._hazard(arrs):
            # a written array shares memory with an array that is read at another cell (or through a different view): the value
            # of the vectorised "evaluate on the pre-state" execution below is NOT what a compiled kernel computes; execute cell by
            # cell in memory (row-major) order, as the serial compiled loop nest does
            HAZARD_CALLS.append(self.name)
            self._call_sequential(arrs, svals, reg, shape)
            return
        for wname, accs, f in self._fn:
            views = []
            for fname, off in accs:
                idx = tuple(slice(lo + o, hi + o) for (lo, hi), o in zip(reg, off))
                for (lo, hi), o, n in zip(reg, off, shape):
                    if lo + o < 0 or hi + o > n:
                        raise IndexError(f"shim: kernel {self.name} reads outside array")
                views.append(arrs[fname][idx])
            with np.errstate(all="ignore"):
                val = f(*views, *svals)
            out = arrs[wname]
            idx = tuple(slice(lo, hi) for lo, hi in reg)
            if np.ndim(val) != 0:
                val = np.array(val, copy=True)  # rhs fully evaluated on the pre-state
            out[idx] = val


def _same_view(a, b):
    return (a.__array_interface__["data"][0] == b.__array_interface__["data"][0] and a.shape == b.shape and a.strides == b.strides)


def _hazard(self, arrs):
    zero = (0,) * self.ndim
    for wname, accs, _f in self._fn:
        w = arrs[wname]
        for fname, off in accs:
            if fname == wname:
                continue
            a = arrs[fname]
            if np.shares_memory(w, a) and not (_same_view(w, a) and tuple(off) == zero):
                return True
    return False


def _call_sequential(self, arrs, svals, reg, shape):
    import itertools as _it

    for _w, accs, _f in self._fn:
        for fn, off in accs:
            for (lo, hi), o, n in zip(reg, off, shape):
                if lo + o < 0 or hi + o > n:
                    raise IndexError(f"shim: kernel {self.name} reads outside array")
    with np.errstate(all="ignore"):
        for cell in _it.product(*[range(lo, hi) for lo, hi in reg]):
            for wname, accs, f in self._fn:
                vals = [arrs[fn][tuple(c + o for c, o in zip(cell, off))] for fn, off in accs]
                arrs[wname][cell] = f(*vals, *svals)


CapturedKernel._hazard = _hazard
CapturedKernel._call_sequential = _call_sequential
HAZARD_CALLS = []


def lambdify_exact(args, expr, modules="numpy"):
    """sympy.lambdify prints Float constants with 15 significant digits, which does not round-trip;
    pass every Float constant as an extra (closed-over) argument holding its exact binary64 value"""
    floats = sorted(expr.atoms(sp.Float), key=lambda f: float(f))
    if not floats:
        return sp.lambdify(list(args), expr, modules=modules)
    dummies = [sp.Dummy(f"const{i}") for i in range(len(floats))]
    f = sp.lambdify(list(args) + dummies, expr.xreplace(dict(zip(floats, dummies))), modules=modules)
    vals = [float(x) for x in floats]
    return lambda *a: f(*a, *vals)


def install():
    global _installed
    if _installed:
        return
    if REPO not in sys.path:
        sys.path.insert(0, REPO)
    import pystencils as ps

    orig_kernel = ps.kernel

    def kernel(func, **kw):
        lst = orig_kernel(func, **kw)
        kl = KList(lst)
        kl.name = func.__name__
        kl.qualname = func.__qualname__
        kl.module = func.__module__
        return kl

    def create_kernel(assignments, config=None, **kw):
        if kw:
            raise TypeError(f"shim: unexpected create_kernel options {sorted(kw)}")
        return CapturedKernel(assignments, config)

    ps.kernel = kernel
    ps.create_kernel = create_kernel
    ps.CreateKernelConfig = Cfg
    _installed = True


def assert_repo_is(path=None):
    """the imported sopht must come from REPO's working tree"""
    import sopht

    p = os.path.realpath(os.path.dirname(sopht.__file__))
    want = os.path.realpath(os.path.join(path or REPO, "sopht"))
    if p != want:
        raise RuntimeError(f"sopht imported from {p}, expected {want}")
