"""Translator: /repo's kernel generators (executed, via tools/capture.py) -> Lean definitions.

Outputs (all overwritten on every run):
  lean/SophtVerif/Gen/Kernels.lean      generic ordered-field definitions of every algebraic kernel
  lean/SophtVerif/Gen/KernelsReal.lean  real-number definitions of the kernels containing sin
  lean/SophtVerif/Gen/KernelsFloat.lean Float twins of KernelsReal (executed by the self-check only)
  lean/SophtVerif/Gen/Table.lean        reads / writes / ghost width / slice / threads as data
  lean/SophtVerif/Gen/SelfCheck.lean    printer self-check: evaluates each definition at random
                                        rational points; expected values computed here with Fractions
  .cache/kernels.json                   machine-readable listing
"""
from __future__ import annotations

import hashlib
import json
import math
import os
import random
import re
import sys
from fractions import Fraction

HERE = os.path.dirname(os.path.abspath(__file__))
ROOT = os.path.dirname(HERE)
sys.path.insert(0, HERE)

import sympy as sp

GEN_DIR = os.path.join(ROOT, "lean", "SophtVerif", "Gen")
CACHE = os.path.join(ROOT, ".cache")


class TranslationFailure(Exception):
    pass


# --------------------------------------------------------------------------- constants


def float_to_rational(c: float):
    """unique p/q, q <= 1024 with float(p/q) == c bit-exactly, else the exact dyadic rational"""
    fr = Fraction(c)
    cand = fr.limit_denominator(1024)
    if float(cand) == c:
        return cand, "small"
    return fr, "dyadic"


def pi_multiple(c: float):
    """('mul', r) if c == r*pi, ('div', r) if c == r/pi for a rational r with denominator <= 64 (2 ulp)"""
    for kind, v in (("mul", c / math.pi), ("div", c * math.pi)):
        r = Fraction(v).limit_denominator(64)
        if r == 0:
            continue
        back = float(r) * math.pi if kind == "mul" else float(r) / math.pi
        if abs(back - c) <= 2 * math.ulp(c):
            return kind, r
    return None


# --------------------------------------------------------------------------- printer

IDX = {2: ["i", "j"], 3: ["i", "j", "k"], 4: ["c", "i", "j", "k"]}
LEAN_KEYWORDS = {"from", "at", "in", "if", "then", "else", "fun", "end", "open", "local", "prefix", "field"}


def lname(s: str) -> str:
    s = re.sub(r"[^A-Za-z0-9_]", "_", s)
    if s in LEAN_KEYWORDS:
        s = s + "_"
    return s


class Printer:
    """sympy expression -> Lean term over a generic ordered field `K`; transcendental atoms go
    through the parameter `T : Transc K` (T.sin, T.pi)"""

    def __init__(self, ndim, consts):
        self.ndim = ndim
        self.ty = "K"
        self.consts = consts  # log of recognised constants
        self.uses_T = False

    def rat(self, r: Fraction) -> str:
        if r.denominator == 1:
            return f"({r.numerator} : {self.ty})" if r >= 0 else f"(-{-r.numerator} : {self.ty})"
        if r >= 0:
            return f"({r.numerator} / {r.denominator} : {self.ty})"
        return f"(-({-r.numerator} / {r.denominator}) : {self.ty})"

    def flt(self, c: float) -> str:
        r, how = float_to_rational(c)
        if how == "small":
            self.consts.append({"float": repr(c), "as": f"{r}"})
            return self.rat(r)
        pm = pi_multiple(c)
        if pm is not None:
            kind, r = pm
            self.consts.append({"float": repr(c), "as": f"{r}{'*' if kind == 'mul' else '/'}pi"})
            self.uses_T = True
            op = "*" if kind == "mul" else "/"
            return f"({self.rat(r)} {op} T.pi)"
        raise TranslationFailure(f"unrecognised float constant {c!r}")

    def acc(self, a) -> str:
        parts = []
        for v, o in zip(IDX[self.ndim], a.offsets):
            o = int(o)
            parts.append(v if o == 0 else (f"({v} + {o})" if o > 0 else f"({v} - {-o})"))
        return f"{lname(a.field.name)} " + " ".join(parts)

    def cond(self, c) -> str:
        if c is sp.true:
            return "True"
        if isinstance(c, sp.StrictGreaterThan):
            return f"{self.p(c.rhs)} < {self.p(c.lhs)}"
        if isinstance(c, sp.StrictLessThan):
            return f"{self.p(c.lhs)} < {self.p(c.rhs)}"
        if isinstance(c, sp.GreaterThan):
            return f"{self.p(c.rhs)} ≤ {self.p(c.lhs)}"
        if isinstance(c, sp.LessThan):
            return f"{self.p(c.lhs)} ≤ {self.p(c.rhs)}"
        raise TranslationFailure(f"unsupported condition {sp.srepr(c)}")

    def p(self, e) -> str:
        import pystencils as ps

        if isinstance(e, ps.Field.Access):
            return f"({self.acc(e)})"
        if e.is_Integer:
            return self.rat(Fraction(int(e)))
        if e.is_Rational:
            return self.rat(Fraction(int(e.p), int(e.q)))
        if e.is_Float:
            return self.flt(float(e))
        if e is sp.pi:
            self.uses_T = True
            return "T.pi"
        if e.is_Symbol:
            return lname(e.name)
        if isinstance(e, sp.Add):
            return "(" + " + ".join(self.p(a) for a in e.args) + ")"
        if isinstance(e, sp.Mul):
            args = list(e.args)
            neg = False
            if args and args[0] == -1:
                neg = True
                args = args[1:]
            s = "(" + " * ".join(self.p(a) for a in args) + ")"
            return f"(-{s})" if neg else s
        if isinstance(e, sp.Pow):
            b, ex = e.args
            if ex.is_Integer:
                n = int(ex)
                if n == -1:
                    return f"({self.p(b)})⁻¹"
                if n > 0:
                    return f"({self.p(b)} ^ {n})"
                return f"(({self.p(b)} ^ {-n}))⁻¹"
            raise TranslationFailure(f"unsupported power {sp.srepr(e)}")
        if isinstance(e, sp.Piecewise):
            pairs = list(e.args)
            if pairs[-1].cond is not sp.true:
                raise TranslationFailure("Piecewise without default branch")
            out = self.p(pairs[-1].expr)
            for pr in reversed(pairs[:-1]):
                out = f"(if {self.cond(pr.cond)} then {self.p(pr.expr)} else {out})"
            return out
        if isinstance(e, sp.Abs):
            return f"|{self.p(e.args[0])}|"
        if isinstance(e, sp.sin):
            self.uses_T = True
            return f"(T.sin {self.p(e.args[0])})"
        raise TranslationFailure(f"unsupported expression node {type(e).__name__}: {e}")


def has_transcendental(e) -> bool:
    return bool(e.atoms(sp.sin, sp.cos)) or e.has(sp.pi) or _has_pi_float(e)


def _has_pi_float(e) -> bool:
    for f in e.atoms(sp.Float):
        c = float(f)
        if float_to_rational(c)[1] != "small" and pi_multiple(c) is not None:
            return True
    return False


# --------------------------------------------------------------------------- naming


def lean_kernel_name(k, width=None):
    """Lean name of a captured kernel: python stencil name, `_vec` when the kernel acts on arrays with a
    leading component axis, `_w<width>` for kernels with an iteration slice (width = |slice bound|)"""
    base = k.name.lstrip("_")
    m = re.search(r"_(\d)d(_|$)", base)
    declared = int(m.group(1)) if m else k.ndim
    nm = base
    if k.ndim != declared:
        nm += "_vec"
    if k.slice is not None:
        if width is None:
            bounds = {abs(int(b)) for s_ in k.slice for b in (s_.start, s_.stop) if b is not None}
            if len(bounds) != 1:
                raise TranslationFailure(f"cannot infer width of sliced kernel {k.name}: {k.slice}")
            width = bounds.pop()
        nm += f"_w{width}"
    return nm


def kernel_lean_names(kernels):
    """assign a unique Lean name to every distinct captured kernel"""
    names = {}
    used = {}
    for key, rec in kernels.items():
        k = rec["kernel"]
        if k.slice is not None and len(rec["widths"]) != 1:
            raise TranslationFailure(f"sliced kernel {k.name} seen with widths {rec['widths']}")
        nm = lean_kernel_name(k)
        if k.slice is not None and nm != lean_kernel_name(k, next(iter(rec["widths"]))):
            raise TranslationFailure(f"slice bounds of {k.name} do not match the generator's width option")
        if nm in used:
            raise TranslationFailure(f"two distinct kernel bodies map to the Lean name {nm}")
        used[nm] = key
        names[key] = nm
    return names


def slice_to_data(sl, ndim):
    """list per axis of (lo, hi) with None for open ends; ints may be negative (from the end)"""
    if sl is None:
        return None
    if not isinstance(sl, tuple):
        sl = (sl,)
    out = []
    for s in sl:
        if not isinstance(s, slice) or s.step not in (None, 1):
            raise TranslationFailure(f"unsupported iteration slice {sl!r}")
        out.append([s.start, s.stop])
    return out


# --------------------------------------------------------------------------- main


def field_ty(ndim, ty):
    return f"F{ndim} {ty}"


def translate(out_dir=GEN_DIR, seed=0):
    import capture

    kernels, invocations, errors = capture.capture_all()
    # generator invocations that raise are admissible only for documented argument validation
    bad = [e for e in errors if "ValueError" not in e[2]]
    if bad:
        raise TranslationFailure(f"generator raised unexpectedly: {bad[0]}")
    names = kernel_lean_names(kernels)
    os.makedirs(out_dir, exist_ok=True)
    os.makedirs(CACHE, exist_ok=True)

    alg, table, listing, checks = [], [], [], []
    rng = random.Random(seed)
    consts = []
    for key in sorted(kernels, key=lambda k: names[k]):
        rec = kernels[key]
        k = rec["kernel"]
        nm = names[key]
        trans = any(has_transcendental(rhs) for _, rhs in k.assignments)
        idx = " ".join(IDX[k.ndim])
        scal = [lname(s.name) for s in k.scalars]
        read_fields = sorted(k.reads)
        entry = {
            "lean": nm,
            "py_name": k.name,
            "qualname": k.qualname,
            "module": k.module,
            "ndim": k.ndim,
            "ghost": k.ghost,
            "slice": slice_to_data(k.slice, k.ndim),
            "scalars": scal,
            "fields": sorted(k.fields),
            "reads": {f: sorted(list(o) for o in offs) for f, offs in sorted(k.reads.items())},
            "writes": k.writes,
            "threads_seen": sorted(rec["threads_seen"]),
            "dtypes_seen": sorted(str(d) for d in rec["dtypes_seen"]),
            "gens": sorted(rec["gens"]),
            "transcendental": trans,
            "independent": k.independent(),
            "outputs": [],
        }
        for lhs, rhs in k.assignments:
            out = lhs.field.name
            dn = nm if len(k.assignments) == 1 else f"{nm}__{lname(out)}"
            rfields = sorted({a.field.name for a in rhs.atoms(__import__("pystencils").Field.Access)})
            rscal = sorted({s.name for s in rhs.free_symbols if s.is_Symbol and not hasattr(s, "field")})
            # keep the full parameter list of the kernel for every output (uniform call signature)
            params_s = scal
            params_f = [lname(f) for f in read_fields]
            entry["outputs"].append({"field": out, "def": dn, "params_scalars": params_s, "params_fields": read_fields})
            pr = Printer(k.ndim, consts)
            body = pr.p(rhs)
            if pr.uses_T != trans:
                raise TranslationFailure(f"transcendental classification mismatch for {dn}")
            tparam = "(T : Transc K) " if trans else ""
            sparams = " ".join(f"({s_} : K)" for s_ in params_s)
            fparams = " ".join(f"({f} : {field_ty(k.ndim, 'K')})" for f in params_f)
            head = f"def {dn} {tparam}{sparams} {fparams} : {field_ty(k.ndim, 'K')} :=\n  fun {idx} =>\n    {body}\n"
            doc = f"/-- `{k.qualname}` ({k.module}); output `{out}`; ghost {k.ghost}; slice {entry['slice']} -/\n"
            alg.append(doc + head)
            # self-check points
            for t in range(3):
                checks.append(_make_check(k, lhs, rhs, dn, trans, rng))
        table.append(entry)
        listing.append(entry)

    header = "-- GENERATED by tools/translate.py from /repo's kernel generators. DO NOT EDIT.\n"
    with open(os.path.join(out_dir, "Kernels.lean"), "w") as f:
        f.write(header + "import SophtVerif.Core.Grid\n\nset_option linter.unusedVariables false\nset_option linter.style.nameCheck false\n\nnamespace Sopht.Gen\n\n"
                "variable {K : Type} [Field K] [LinearOrder K] [IsStrictOrderedRing K]\n\n")
        f.write("\n".join(alg))
        f.write("\nend Sopht.Gen\n")
    for stale in ("KernelsReal.lean", "KernelsFloat.lean"):
        if os.path.exists(os.path.join(out_dir, stale)):
            os.remove(os.path.join(out_dir, stale))
    _write_calls(out_dir, header, table)
    _write_table(out_dir, header, table)
    _write_selfcheck(out_dir, header, checks)
    with open(os.path.join(CACHE, "kernels.json"), "w") as f:
        json.dump({"kernels": listing, "constants": _dedupe(consts), "n_invocations": len(invocations),
                   "rejected_invocations": len(errors)}, f, indent=1, default=str)
    return listing, invocations, errors, _dedupe(consts)


def _dedupe(consts):
    seen = {}
    for c in consts:
        seen[(c["float"], c["as"])] = c
    return list(seen.values())


def _rand_rat(rng):
    return Fraction(rng.randint(-40, 40), rng.choice([1, 2, 3, 4, 5, 7, 8]))


def _make_check(k, lhs, rhs, dn, trans, rng):
    """a random evaluation point: scalar values, per-access values; expected value by exact substitution"""
    import pystencils as ps

    accs = sorted(rhs.atoms(ps.Field.Access), key=lambda a: (a.field.name, tuple(int(o) for o in a.offsets)))
    scal_vals = {s.name: _rand_rat(rng) for s in k.scalars}
    if trans:
        # keep arguments moderate and denominators away from zero
        for s in scal_vals:
            scal_vals[s] = abs(scal_vals[s]) + Fraction(1, 2)
    acc_vals = {}
    for a in accs:
        acc_vals[(a.field.name, tuple(int(o) for o in a.offsets))] = _rand_rat(rng)
    sub = {}
    for a in accs:
        v = acc_vals[(a.field.name, tuple(int(o) for o in a.offsets))]
        sub[a] = sp.Rational(v.numerator, v.denominator)
    for s in k.scalars:
        v = scal_vals[s.name]
        sub[s] = sp.Rational(v.numerator, v.denominator)
    if not trans:
        # exact: turn every float literal into the rational the printer chose
        fl = {f: sp.Rational(*_fr(float_to_rational(float(f))[0])) for f in rhs.atoms(sp.Float)}
        val = sp.nsimplify(rhs.xreplace(fl).xreplace(sub), rational=True)
        val = sp.Rational(val) if val.is_Rational else None
        if val is None:
            raise TranslationFailure(f"self-check: could not evaluate {dn} exactly")
        expected = Fraction(int(val.p), int(val.q))
    else:
        expected = float(rhs.xreplace(sub).evalf(30))
    return {"def": dn, "ndim": k.ndim, "trans": trans, "scalars": [lname(s.name) for s in k.scalars],
            "scal_vals": {lname(n): v for n, v in scal_vals.items()},
            "fields": sorted(k.reads), "acc_vals": acc_vals, "expected": expected}


def _fr(fr):
    return (fr.numerator, fr.denominator)


def _lean_rat(v: Fraction, ty="ℚ"):
    if v.denominator == 1:
        return f"({v.numerator} : {ty})"
    return f"(({v.numerator} : {ty}) / {v.denominator})"


def _write_selfcheck(out_dir, header, checks):
    lines = [header, "import SophtVerif.Gen.Kernels", "import SophtVerif.Core.RatTransc", "",
             "open Sopht Sopht.Gen", "", "def ratChecks : List (String × ℚ × ℚ × Bool) := ["]
    entries = []
    for c in checks:
        nd = c["ndim"]
        idx = IDX[nd]
        fargs = []
        for f in c["fields"]:
            pts = [(off, v) for (fn, off), v in c["acc_vals"].items() if fn == f]
            body = "0"
            for off, v in pts:
                cnd = " ∧ ".join(f"{a} = {o}" for a, o in zip(idx, off))
                body = f"if {cnd} then {_lean_rat(v)} else ({body})"
            fargs.append(f"(fun {' '.join(idx)} => {body})")
        sargs = " ".join(_lean_rat(c["scal_vals"][s]) for s in c["scalars"])
        zero = " ".join("0" for _ in idx)
        targ = "ratTransc " if c["trans"] else ""
        if c["trans"]:
            exp = Fraction(c["expected"])
        else:
            exp = c["expected"]
        entries.append(f'  ("{c["def"]}", ({c["def"]} (K := ℚ) {targ}{sargs} {" ".join(fargs)}) {zero}, {_lean_rat(exp)}, {"true" if c["trans"] else "false"})')
    lines.append(",\n".join(entries))
    lines.append("]")
    lines.append("""
def main : IO UInt32 := do
  let mut bad := 0
  let mut nT := 0
  for (n, got, want, approx) in ratChecks do
    if approx then
      nT := nT + 1
      let err := |got - want|
      if !(err ≤ (1 / 1000000000 : ℚ) * (1 + |want|)) then
        IO.println s!"SELFCHECK-MISMATCH {n} got={got} want={want}"
        bad := bad + 1
    else if got != want then
      IO.println s!"SELFCHECK-MISMATCH {n} got={got} want={want}"
      bad := bad + 1
  IO.println s!"SELFCHECK rat={ratChecks.length - nT} float={nT} bad={bad}"
  return (if bad == 0 then 0 else 1)
""")
    with open(os.path.join(out_dir, "SelfCheck.lean"), "w") as f:
        f.write("\n".join(lines))


def _write_calls(out_dir, header, table):
    """call constructors: trace data and semantics built from the same arguments"""
    L = [header, "import SophtVerif.Gen.Kernels", "import SophtVerif.Core.Program", "",
         "set_option linter.unusedVariables false", "set_option linter.style.nameCheck false", "",
         "namespace Sopht.Gen", "",
         "variable {B K : Type} [DecidableEq B] [Field K] [LinearOrder K] [IsStrictOrderedRing K]", ""]
    for e in table:
        nd = e["ndim"]
        nm = e["lean"]
        T = "(T : Transc K) " if e["transcendental"] else ""
        Targ = "T " if e["transcendental"] else ""
        scal = e["scalars"]
        flds = e["fields"]  # all formals, sorted
        sc_params = " ".join(f"({x} : K)" for x in scal)
        sc_list = ", ".join(f'("{x}", {x})' for x in scal)
        if nd in (2, 3):
            d = nd
            fparams = " ".join(f"({lname(f)} : B)" for f in flds)
            binds = ", ".join(f'("{f}", {lname(f)})' for f in flds)
            writes = []
            for o in e["outputs"]:
                args = " ".join(f"(s {lname(f)})" for f in o["params_fields"])
                writes.append(f"({lname(o['field'])}, fun s => {o['def']} {Targ}{' '.join(scal)} {args})")
            L.append(f"def call_{nm} {T}{sc_params} {fparams} (r : Rect{d}) : Call{d} B K :=\n"
                     f"  {{ kid := \"{nm}\", binds := [{binds}], scal := [{sc_list}], region := r,\n"
                     f"    writes := [{', '.join(writes)}] }}\n")
        if nd in (3, 4):
            d = nd - 1
            fparams = " ".join(f"({lname(f)} : VecBuf B)" for f in flds)
            binds = " ++ ".join(f'((comps ncomp).map fun c => ("{f}", {lname(f)} c))' for f in flds)
            ws = []
            for o in e["outputs"]:
                args = " ".join(f"(fun c' => s ({lname(f)} c'))" for f in o["params_fields"])
                ws.append(f"((comps ncomp).map fun c => ({lname(o['field'])} c, fun s => ({o['def']} {Targ}{' '.join(scal)} {args}) c))")
            L.append(f"def vcall_{nm} {T}(ncomp : ℕ) {sc_params} {fparams} (r : Rect{d}) : Call{d} B K :=\n"
                     f"  {{ kid := \"{nm}\", binds := {binds}, scal := [{sc_list}], region := r,\n"
                     f"    writes := {' ++ '.join(ws)} }}\n")
    # width-dispatchers for the families of sliced kernels (one generated kernel per enumerated width)
    fams = {}
    for e in table:
        m = re.match(r"(.*)_w(\d+)$", e["lean"])
        if m and e["slice"] is not None:
            fams.setdefault(m.group(1), []).append((int(m.group(2)), e))
    for base, members in sorted(fams.items()):
        members.sort(key=lambda t: t[0])
        e0 = members[0][1]
        d = e0["ndim"]
        T = "(T : Transc K) " if e0["transcendental"] else ""
        Targ = "T " if e0["transcendental"] else ""
        sc_params = " ".join(f"({x} : K)" for x in e0["scalars"])
        fparams = " ".join(f"({lname(f)} : B)" for f in e0["fields"])
        args = " ".join(e0["scalars"]) + " " + " ".join(lname(f) for f in e0["fields"])
        lines = [f"/-- `{base}` for the width option `w` (widths {', '.join(str(w) for w, _ in members)} are generated; larger widths fall back to the last) -/",
                 f"def call_{base}_w {T}(w : ℕ) {sc_params} {fparams} (r : Rect{d}) : Call{d} B K :=", "  match w with"]
        for w, e in members[:-1]:
            lines.append(f"  | {w} => call_{e['lean']} {Targ}{args} r")
        lines.append(f"  | _ => call_{members[-1][1]['lean']} {Targ}{args} r")
        L.append("\n".join(lines) + "\n")
    L.append("end Sopht.Gen\n")
    with open(os.path.join(out_dir, "Calls.lean"), "w") as f:
        f.write("\n".join(L))


def _write_table(out_dir, header, table):
    def offs(o):
        return "[" + ", ".join(str(int(x)) for x in o) + "]"

    lines = [header, "import SophtVerif.Core.Table", "", "namespace Sopht.Gen", "", "def kernelTable : List KernelRow := ["]
    rows = []
    for e in table:
        reads = ", ".join(f'("{f}", [{", ".join(offs(o) for o in os_)}])' for f, os_ in e["reads"].items())
        writes = ", ".join(f'"{w}"' for w in e["writes"])
        sl = "none"
        if e["slice"] is not None:
            def ob(x):
                return "none" if x is None else f"some ({int(x)})"
            sl = "some [" + ", ".join(f"({ob(a)}, {ob(b)})" for a, b in e["slice"]) + "]"
        thr = ", ".join(f'("{a}", "{b}")' for a, b in e["threads_seen"])
        rows.append(f'  {{ name := "{e["lean"]}", ndim := {e["ndim"]}, ghost := {e["ghost"]}, reads := [{reads}], '
                    f'writes := [{writes}], slice := {sl}, threads := [{thr}] }}')
    lines.append(",\n".join(rows))
    lines.append("]")
    lines.append("\nend Sopht.Gen\n")
    with open(os.path.join(out_dir, "Table.lean"), "w") as f:
        f.write("\n".join(lines))


def tree_hash():
    h = hashlib.sha256()
    repo = os.environ.get("SOPHT_REPO", "/repo")
    for base in (os.path.join(repo, "sopht"), HERE):
        for dp, dn, fn in sorted(os.walk(base)):
            dn.sort()
            if "__pycache__" in dp:
                continue
            for f in sorted(fn):
                if f.endswith(".py"):
                    p = os.path.join(dp, f)
                    h.update(p.encode())
                    with open(p, "rb") as fh:
                        h.update(fh.read())
    return h.hexdigest()[:16]


if __name__ == "__main__":
    try:
        listing, invs, errs, consts = translate(seed=int(os.environ.get("VERIF_SEED", "0")))
    except TranslationFailure as e:
        print("TRANSLATION-FAILURE", e)
        sys.exit(3)
    print(f"translated {len(listing)} kernels from {len(invs)} generator invocations ({len(errs)} rejected by argument validation)")
    for c in consts:
        print("const", c)
